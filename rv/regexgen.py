"""Generator of regular-expression *programs* (C09, and patterns for str specs).

Each node renders to pattern text and can produce an *example* string that matches it, built
from the node structure alone (independent of d42's walk over the sre parse tree).
"""
import string

PRINTABLE = string.ascii_letters + string.digits + string.punctuation + " "
META = ".^$*+?{}[]\\|()"
WORD = string.ascii_letters + string.digits + "_"


class Node:
    supported = True
    kind = "?"

    def render(self):
        raise NotImplementedError

    def example(self, rng):
        raise NotImplementedError

    def shape(self):
        return self.kind

    def minlen(self):
        return 0

    def maxlen(self, cap=40):
        """Upper bound of the generated length when open-ended repeats are capped at max(cap, lo)."""
        return max(1, self.minlen())

    def unsupported_kinds(self):
        return set()


def esc(ch, rng=None, in_class=False):
    o = ord(ch)
    if ch == "\n":
        return "\\n"
    if ch == "\t":
        return "\\t"
    if in_class:
        if ch in "\\]^-[":
            return "\\" + ch
        return ch
    if ch in META:
        return "\\" + ch
    if ch == " " or ch == "#" or ch == "~" or ch == "&" or ch == "-":
        return ch
    if rng is not None and ch.isalnum() and rng.random() < 0.08:
        return "\\x%02x" % o if o < 256 else "\\u%04x" % o
    return ch


class Lit(Node):
    kind = "lit"

    def __init__(self, ch, text=None):
        self.ch = ch
        self.text = text

    def render(self):
        return self.text if self.text is not None else esc(self.ch)

    def example(self, rng):
        return self.ch

    def minlen(self):
        return 1


class Dot(Node):
    kind = "dot"

    def render(self):
        return "."

    def example(self, rng):
        return rng.choice(PRINTABLE)

    def minlen(self):
        return 1


class Cat(Node):
    def __init__(self, which):  # "d" | "w"
        self.which = which
        self.kind = "\\" + which

    def render(self):
        return "\\" + self.which

    def example(self, rng):
        return rng.choice(string.digits if self.which == "d" else WORD)

    def minlen(self):
        return 1


class Class(Node):
    """[...] / [^...]; items: ("c", ch) | ("r", lo, hi) | ("d",) | ("w",)."""

    def __init__(self, items, negated):
        self.items = items
        self.negated = negated
        self.kind = "negclass" if negated else "class"

    def members(self):
        s = set()
        for it in self.items:
            if it[0] == "c":
                s.add(it[1])
            elif it[0] == "r":
                s.update(chr(x) for x in range(ord(it[1]), ord(it[2]) + 1))
            elif it[0] == "d":
                s.update(string.digits)
            elif it[0] == "w":
                s.update(WORD)
        return s

    def render(self):
        out = "[" + ("^" if self.negated else "")
        for it in self.items:
            if it[0] == "c":
                out += esc(it[1], in_class=True)
            elif it[0] == "r":
                out += esc(it[1], in_class=True) + "-" + esc(it[2], in_class=True)
            else:
                out += "\\" + it[0]
        return out + "]"

    def example(self, rng):
        m = self.members()
        if self.negated:
            cands = [c for c in PRINTABLE if c not in m]
            return rng.choice(cands)
        return rng.choice(sorted(m))

    def minlen(self):
        return 1

    def shape(self):
        return (self.kind, tuple(sorted({it[0] for it in self.items})), len(self.items))

    def candidates_left(self):
        if not self.negated:
            return len(self.members())
        m = self.members()
        return sum(1 for c in PRINTABLE if c not in m)


class Seq(Node):
    kind = "seq"

    def __init__(self, parts):
        self.parts = parts

    def render(self):
        return "".join(p.render() for p in self.parts)

    def example(self, rng):
        return "".join(p.example(rng) for p in self.parts)

    def minlen(self):
        return sum(p.minlen() for p in self.parts)

    def maxlen(self, cap=40):
        return sum(p.maxlen(cap) for p in self.parts)

    def shape(self):
        return ("seq", tuple(p.shape() for p in self.parts))

    def unsupported_kinds(self):
        s = set()
        for p in self.parts:
            s |= p.unsupported_kinds()
        return s


class Alt(Node):
    kind = "alt"

    def __init__(self, branches):
        self.branches = branches

    def render(self):
        return "|".join(b.render() for b in self.branches)

    def example(self, rng):
        return rng.choice(self.branches).example(rng)

    def minlen(self):
        return min(b.minlen() for b in self.branches)

    def maxlen(self, cap=40):
        return max(b.maxlen(cap) for b in self.branches)

    def shape(self):
        return ("alt", tuple(b.shape() for b in self.branches))

    def unsupported_kinds(self):
        s = set()
        for p in self.branches:
            s |= p.unsupported_kinds()
        return s


class Group(Node):
    def __init__(self, inner, how, name=None):
        self.inner = inner
        self.how = how  # "cap" | "non" | "named"
        self.name = name
        self.kind = "group_" + how

    def render(self):
        pre = {"cap": "(", "non": "(?:", "named": f"(?P<{self.name}>"}[self.how]
        return pre + self.inner.render() + ")"

    def example(self, rng):
        return self.inner.example(rng)

    def minlen(self):
        return self.inner.minlen()

    def maxlen(self, cap=40):
        return self.inner.maxlen(cap)

    def shape(self):
        return (self.kind, self.inner.shape())

    def unsupported_kinds(self):
        return self.inner.unsupported_kinds()


class Repeat(Node):
    def __init__(self, atom, lo, hi, lazy, text):
        self.atom = atom
        self.lo = lo
        self.hi = hi  # None = open-ended
        self.lazy = lazy
        self.text = text
        self.kind = "repeat"

    def render(self):
        return self.atom.render() + self.text + ("?" if self.lazy else "")

    def example(self, rng):
        hi = self.hi if self.hi is not None else self.lo + 3
        n = rng.randint(self.lo, min(hi, self.lo + 3))
        return "".join(self.atom.example(rng) for _ in range(n))

    def minlen(self):
        return self.lo * self.atom.minlen()

    def maxlen(self, cap=40):
        hi = self.hi if self.hi is not None else max(cap, self.lo)
        return hi * self.atom.maxlen(cap)

    def shape(self):
        q = self.text if self.text in "*+?" else ("{m}" if "," not in self.text else
                                                   ("{m,}" if self.text.endswith(",}") else "{m,n}"))
        return ("rep", q, self.lazy, self.atom.shape())

    def unsupported_kinds(self):
        return self.atom.unsupported_kinds()


class Anchor(Node):
    def __init__(self, text):
        self.text = text
        self.kind = "anchor" + text

    def render(self):
        return self.text

    def example(self, rng):
        return ""


class Unsupported(Node):
    """A construct the generator does not support; example() is irrelevant (never used as oracle)."""
    supported = False

    def __init__(self, text, label):
        self.text = text
        self.label = label
        self.kind = "unsupported:" + label

    def render(self):
        return self.text

    def example(self, rng):
        raise RuntimeError("no example for unsupported construct")

    def unsupported_kinds(self):
        return {self.label}


LIT_POOL = string.ascii_letters + string.digits + " _-#~&@%!,:;<>=/'\"" + META + "\n\t" + "é"


def gen_class(rng, allow_neg=True):
    n = rng.choice((1, 1, 2, 2, 3, 4))
    items = []
    for _ in range(n):
        r = rng.random()
        if r < 0.45:
            items.append(("c", rng.choice(string.ascii_letters + string.digits + "_-.^]\\[ $*+")))
        elif r < 0.8:
            if rng.random() < 0.25:
                # arbitrary printable span, up to and beyond the last printable character
                lo = rng.choice("!#%0:AZ_amz{")
                hi = rng.choice("/9@Z`z~\x7f")
                a, b = (lo, hi) if lo <= hi else (hi, lo)
            else:
                pool = rng.choice((string.ascii_lowercase, string.ascii_uppercase, string.digits))
                a, b = sorted(rng.sample(pool, 2))
            if rng.random() < 0.15:
                b = a
            items.append(("r", a, b))
        elif r < 0.9:
            items.append(("d",))
        else:
            items.append(("w",))
    neg = allow_neg and rng.random() < 0.3
    c = Class(items, neg)
    if neg and c.candidates_left() == 0:
        c = Class([("c", "a")], True)
    return c


def gen_atom(rng, depth, names):
    r = rng.random()
    if r < 0.40:
        ch = rng.choice(LIT_POOL)
        return Lit(ch, esc(ch, rng))
    if r < 0.47:
        return Dot()
    if r < 0.55:
        return Cat(rng.choice("dw"))
    if r < 0.75:
        return gen_class(rng)
    if depth <= 0:
        ch = rng.choice(string.ascii_letters)
        return Lit(ch)
    inner = gen_alt(rng, depth - 1, names) if rng.random() < 0.5 else gen_seq(rng, depth - 1, names)
    how = rng.choice(("cap", "non", "named"))
    name = None
    if how == "named":
        name = "g%d" % len(names)
        names.append(name)
    return Group(inner, how, name)


def has_open(node):
    if isinstance(node, Repeat):
        return node.hi is None or has_open(node.atom)
    if isinstance(node, Group):
        return has_open(node.inner)
    if isinstance(node, Seq):
        return any(has_open(p) for p in node.parts)
    if isinstance(node, Alt):
        return any(has_open(p) for p in node.branches)
    return False


def gen_quant(rng, atom, state):
    r = rng.random()
    lazy = rng.random() < 0.25
    # no open-ended repeat around something that already contains one (catastrophic backtracking in the
    # *oracle* re.fullmatch, not in d42), and at most two open-ended repeats per sequence
    open_ok = state["open"] < 2 and not has_open(atom)
    if r < 0.2 and open_ok:
        state["open"] += 1
        return Repeat(atom, 0, None, lazy, "*")
    if r < 0.4 and open_ok:
        state["open"] += 1
        return Repeat(atom, 1, None, lazy, "+")
    if r < 0.55:
        return Repeat(atom, 0, 1, lazy, "?")
    if r < 0.7:
        m = rng.choice((0, 1, 2, 3, 5))
        return Repeat(atom, m, m, lazy, "{%d}" % m)
    if r < 0.88:
        m = rng.choice((0, 1, 2))
        n = m + rng.choice((0, 1, 2, 4))
        if state.get("big") and rng.random() < 0.3 and atom.maxlen(40) <= 4:
            # larger explicit upper bounds (every value up to 70: the generator must not confuse a bound with a constant)
            n = rng.randint(20, 70)
        return Repeat(atom, m, n, lazy, "{%d,%d}" % (m, n))
    if open_ok:
        state["open"] += 1
        m = rng.choice((0, 1, 2, 33, 40)) if state["big"] else rng.choice((0, 1, 2))
        return Repeat(atom, m, None, lazy, "{%d,}" % m)
    return Repeat(atom, 0, 1, lazy, "?")


def gen_seq(rng, depth, names, state=None):
    state = state if state is not None else {"open": 0, "big": False}
    n = rng.choice((1, 1, 2, 2, 3, 4))
    parts = []
    for _ in range(n):
        a = gen_atom(rng, depth, names)
        if rng.random() < 0.35:
            a = gen_quant(rng, a, state)
        parts.append(a)
    return Seq(parts)


def gen_alt(rng, depth, names):
    n = rng.choice((2, 2, 3))
    br = []
    for _ in range(n):
        if rng.random() < 0.08:
            br.append(Seq([]))  # empty alternative
        else:
            br.append(gen_seq(rng, depth, names))
    return Alt(br)


UNSUPPORTED = [
    ("(?=a)", "lookahead"), ("(?!zz)", "neg_lookahead"), ("(?<=a)", "lookbehind"),
    ("(?<!q)", "neg_lookbehind"), ("\\s", "cat_space"), ("\\S", "cat_not_space"),
    ("\\D", "cat_not_digit"), ("\\W", "cat_not_word"), ("[\\s]", "class_space"),
    ("[a\\S]", "class_not_space"), ("[\\D]", "class_not_digit"), ("[\\Wx]", "class_not_word"),
    ("(?>ab)", "atomic"), ("a++", "possessive_plus"), ("b*+", "possessive_star"),
    ("c?+", "possessive_q"), ("d{1,2}+", "possessive_range"),
]


def gen_pattern(rng, depth=2, *, anchors=True, big_repeat=False, unsupported=False):
    """Return a Seq (top-level may be an Alt) — the full pattern program."""
    names = []
    state = {"open": 0, "big": big_repeat}
    if rng.random() < 0.2:
        top = gen_alt(rng, depth, names)
    else:
        top = gen_seq(rng, depth, names, state)
    parts = [top] if isinstance(top, Alt) else list(top.parts)
    if unsupported:
        choice = rng.choice(UNSUPPORTED + [("BACKREF", "backref"), ("NAMEDREF", "named_backref"),
                                           ("COND", "conditional")])
        text, label = choice
        if text in ("BACKREF", "NAMEDREF", "COND"):
            g = Group(Seq([Lit(rng.choice("xyz"))]), "named" if text == "NAMEDREF" else "cap",
                      "r0" if text == "NAMEDREF" else None)
            ref = {"BACKREF": "\\%d" % (1 + len([0 for _ in names if False])),
                   "NAMEDREF": "(?P=r0)", "COND": "(?(1)u|v)"}[text]
            # group numbering: put the referenced group first so that it is group 1
            node_list = [g, Unsupported(ref, label)]
            if isinstance(top, Alt):
                parts = node_list + [Group(top, "non")]
            else:
                parts = node_list + parts
        else:
            u = Unsupported(text, label)
            if isinstance(top, Alt):
                parts = [Group(top, "non")]
            pos = rng.randint(0, len(parts))
            parts = parts[:pos] + [u] + parts[pos:]
        top = Seq(parts)
    elif isinstance(top, Alt):
        top = top if not anchors else Seq([Group(top, "non")]) if rng.random() < 0.5 else top
    if anchors and isinstance(top, Seq):
        parts = list(top.parts)
        r = rng.random()
        if r < 0.15:
            parts = [Anchor("^")] + parts
        elif r < 0.2:
            parts = [Anchor("\\A")] + parts
        r = rng.random()
        if r < 0.15:
            parts = parts + [Anchor("$")]
        elif r < 0.2:
            parts = parts + [Anchor("\\Z")]
        top = Seq(parts)
    return top


def simple_pattern(rng):
    """Small supported pattern for use inside str specs (with examples)."""
    return gen_pattern(rng, depth=rng.choice((0, 1, 1, 2)), anchors=True)
