"""Classifiers for known findings.

`known_findings.json` (committed, read-only at run time) lists the findings.  Each *open* finding
has a classifier here: a predicate over one recorded violation (kind + detail), written in terms of
the mechanism and the observed symptom -- never a case hash or a random value.  Anything no
predicate covers is reported as a VIOLATION.  "fixed" entries have no classifier: they suppress
nothing.
"""
import json
import os

from .common import VERIF

_FILE = os.path.join(VERIF, "known_findings.json")


def _load():
    try:
        with open(_FILE) as f:
            return json.load(f)
    except FileNotFoundError:
        return {"findings": []}


def findings():
    return _load()["findings"]


def describe(fid):
    for f in findings():
        if f["id"] == fid:
            return f"{fid}: {f['what_fails']}"
    return fid


# predicate registry: finding id -> function(violation) -> bool
PREDICATES = {}


def predicate(fid):
    def deco(fn):
        PREDICATES[fid] = fn
        return fn
    return deco


def classify(prop, v):
    for f in findings():
        if f.get("status") != "open":
            continue
        if prop not in f.get("properties", [f.get("property")]):
            continue
        p = PREDICATES.get(f["id"])
        if p is None:
            continue
        try:
            if p(v):
                return f["id"]
        except Exception:
            continue
    return None


def split(prop, violations):
    open_f, unknown = {}, []
    for v in violations:
        fid = classify(prop, v)
        if fid is None:
            unknown.append(v)
        else:
            open_f.setdefault(fid, []).append(v)
    return open_f, unknown


# ---------------------------------------------------------------------------------------------
# classifiers (added together with the corresponding entry in known_findings.json)


def _feat(v):
    return set(v["detail"].get("features") or [])


@predicate("F10")
def _f10(v):
    d = v["detail"]
    return (v["kind"].endswith("fake_raised:ValueError") and "float_grid_empty" in _feat(v)
            and "empty range" in d["exc"]["msg"] and (d["exc"]["where"] or "").endswith("random_int"))


@predicate("F12")
def _f12(v):
    d = v["detail"]
    return (v["kind"].endswith("fake_raised:IndexError") and "empty_alphabet" in _feat(v)
            and "empty sequence" in d["exc"]["msg"] and "generation/_random.py" in (d["exc"]["where"] or ""))


@predicate("F17")
def _f17(v):
    d = v["detail"]
    return bool(d.get("unsat_member")) and (v["kind"].startswith("generated_value_rejected:")
                                            or v["kind"].startswith("fake_raised:"))


@predicate("F13")
def _f13(v):
    d = v["detail"]
    if v["kind"] in ("distinguishable_variant_compares_equal", "equal_schemas_different_verdicts"):
        return d.get("only_ellipsis_vs_any") is True
    if v["kind"] == "not_transitive":
        return d.get("equal_links_only_via_marker_blindspot") is True
    return False


@predicate("F14")
def _f14(v):
    d = v["detail"]
    return (v["kind"] == "configurations_differ" and d.get("spec_has_negated_class") is True
            and d.get("differs_only_inside_equal_length_strings") is True and d.get("in_process_stable") is True)


@predicate("F21")
def _f21(v):
    d = v["detail"]
    return (v["kind"] == "result_rejects_the_substituted_value" and d.get("contains_window_with_partial_dict") is True
            and d.get("error_kinds") == ["MissingKeyValidationError"])
