"""Probes: invariants at hooks installed from the harness on the real classes.

Every probe counts its evaluations in ctx; a probe that fires records a violation.
"""
import functools
import os
import sys

from .common import REPO, mod


def path_keys(path):
    return [op.operand for op in path]


def _extends(path, prefix_keys):
    ks = path_keys(path)
    if len(ks) < len(prefix_keys):
        return False
    for a, b in zip(ks, prefix_keys):
        if type(a) is not type(b) or a != b:
            try:
                if a is b:
                    continue
            except Exception:
                pass
            return False
    return True


def install_path_prefix(ctx, on_root=None):
    """Post-condition on every Validator.visit_* (and SubstitutorValidator overrides): every error in the
    returned result has a path that extends the path the visit was called with."""
    from niltype import Nil
    V = mod("d42.validation._validator").Validator
    SV = mod("d42.substitution._validator").SubstitutorValidator
    installed = []
    for cls in (V, SV):
        for name, fn in list(vars(cls).items()):
            if not name.startswith("visit_") or not callable(fn):
                continue

            def make(fn, name, cls):
                @functools.wraps(fn)
                def wrapped(self, schema, *a, **kw):
                    p = kw.get("path", Nil)
                    prefix = None if p is Nil or p is None else path_keys(p)
                    res = fn(self, schema, *a, **kw)
                    ctx.count("probe_path_prefix")
                    if prefix is None and on_root is not None:
                        on_root(self, schema, res)
                    try:
                        errs = res.get_errors()
                    except Exception:
                        return res
                    if prefix is not None:
                        if path_keys(p) != prefix:
                            ctx.violation("probe:visit_mutated_its_path", {
                                "visit": f"{cls.__name__}.{name}", "before": repr(prefix), "after": repr(path_keys(p))})
                        for e in errs:
                            ep = getattr(e, "path", None)
                            if ep is None:
                                continue
                            if not _extends(ep, prefix):
                                ctx.violation("probe:error_path_not_under_visit_path", {
                                    "visit": f"{cls.__name__}.{name}", "visit_path": repr(prefix),
                                    "error": repr(e)[:300], "error_class": type(e).__name__,
                                    "error_path": repr(path_keys(ep))})
                    return res
                wrapped.__rv_orig__ = fn
                return wrapped
            setattr(cls, name, make(fn, name, cls))
            installed.append((cls, name, fn))
    return installed


def uninstall(installed):
    for cls, name, fn in installed:
        setattr(cls, name, fn)


def install_error_ctor(ctx):
    """Record (error kind, depth) for every ValidationError constructed."""
    E = mod("d42.validation.errors")
    installed = []
    for name in E.__all__:
        cls = getattr(E, name)
        if name == "ValidationError" or "__init__" not in vars(cls):
            continue
        orig = cls.__init__

        def make(orig, name):
            @functools.wraps(orig)
            def init(self, path, *a, **kw):
                orig(self, path, *a, **kw)
                try:
                    d = len(path)
                except Exception:
                    d = -1
                ctx.table("error_ctor_kind_x_depth", f"{name}|{min(d, 3)}")
            return init
        cls.__init__ = make(orig, name)
        installed.append((cls, "__init__", orig))
    return installed


def install_substitution_capture(ctx, sink):
    """Wrap make_substitution_error *in the namespace of d42.substitution._substitutor* so that the
    ValidationResult behind each SubstitutionError is captured (sink.append(result))."""
    m = mod("d42.substitution._substitutor")
    orig = m.make_substitution_error

    def wrapped(result, formatter):
        ctx.count("probe_subst_result")
        sink.append(result)
        return orig(result, formatter)
    m.make_substitution_error = wrapped
    return [(m, "make_substitution_error", orig)]


# ------------------------------------------------------------------------------------------------
# reach: sys.monitoring LINE events restricted to REPO/d42, DISABLE after first hit

class Reach:
    TOOL = 3

    def __init__(self):
        self.lines = set()
        self.active = False

    def start(self):
        mon = getattr(sys, "monitoring", None)
        if mon is None:
            return
        prefix = os.path.join(REPO, "d42") + os.sep
        try:
            mon.use_tool_id(self.TOOL, "rv-reach")
        except ValueError:
            return

        def on_line(code, line):
            fn = code.co_filename
            if fn.startswith(prefix):
                self.lines.add((fn[len(REPO) + 1:], line))
            return mon.DISABLE
        mon.register_callback(self.TOOL, mon.events.LINE, on_line)
        mon.set_events(self.TOOL, mon.events.LINE)
        self.active = True

    def stop(self):
        mon = getattr(sys, "monitoring", None)
        if mon is None or not self.active:
            return
        mon.set_events(self.TOOL, 0)
        mon.register_callback(self.TOOL, mon.events.LINE, None)
        mon.free_tool_id(self.TOOL)
        self.active = False

    def dump(self):
        out = {}
        for fn, ln in self.lines:
            out.setdefault(fn, []).append(ln)
        return {k: sorted(v) for k, v in out.items()}


def executable_lines(relpath):
    """Line numbers that carry code in a repo file (from the compiled code objects)."""
    path = os.path.join(REPO, relpath)
    with open(path) as f:
        src = f.read()
    code = compile(src, path, "exec")
    lines = set()
    stack = [code]
    while stack:
        c = stack.pop()
        for _, _, ln in c.co_lines():
            if ln is not None:
                lines.add(ln)
        for k in c.co_consts:
            if hasattr(k, "co_lines"):
                stack.append(k)
    return lines


def reach_summary(reached, files):
    """reached: {relpath: [lines]} merged over workers; files: anchored files of the property."""
    out = {}
    for rel in files:
        try:
            ex = executable_lines(rel)
        except Exception:
            continue
        got = set(reached.get(rel, [])) & ex
        # module-level lines (imports, defs) run at import time, before monitoring started: exclude the
        # ones never seen in any file by only reporting lines inside function bodies
        body = _function_body_lines(rel)
        exb = ex & body
        gotb = got & body
        out[rel] = {"lines_reached": len(gotb), "lines_total": len(exb),
                    "unreached": sorted(exb - gotb)[:80]}
    return out


def _function_body_lines(relpath):
    import ast
    path = os.path.join(REPO, relpath)
    with open(path) as f:
        tree = ast.parse(f.read())
    body = set()
    for node in ast.walk(tree):
        if isinstance(node, (ast.FunctionDef, ast.AsyncFunctionDef)):
            for st in node.body:
                for sub in ast.walk(st):
                    if hasattr(sub, "lineno"):
                        body.add(sub.lineno)
    return body
