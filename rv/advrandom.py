"""Adversarial stand-in for the stdlib `random` module inside d42.generation._random.

The module `d42.generation._random` draws through its global name `random`; the harness rebinds
that one name to an `Adversary` (a random.Random subclass).  All of d42's own code stays real.
"""
import contextlib
import os
import random as _random
import sys

from .common import REPO, mod


class Adversary(_random.Random):
    """Answers every draw according to a schedule and logs (site, kind, outcome-class)."""

    def __init__(self, schedule="seeded", seed=0, script=None):
        super().__init__(seed)
        self.schedule = schedule
        self.script = script or []
        self.n = 0
        self.log = []          # (site, kind, mode)
        self.sites = {}        # site -> set(modes)

    # -- bookkeeping -------------------------------------------------------------------------
    def _site(self):
        f = sys._getframe(2)
        rand_file = None
        # walk out of this module and of d42/generation/_random.py to the first d42 caller
        while f is not None:
            fn = f.f_code.co_filename
            if fn.endswith("advrandom.py") or fn.endswith(os.sep + "random.py"):
                f = f.f_back
                continue
            if fn.endswith("d42/generation/_random.py"):
                rand_file = (f.f_code.co_name, f.f_lineno)
                f = f.f_back
                continue
            break
        if f is None:
            return "?"
        fn = f.f_code.co_filename
        if fn.startswith(REPO):
            fn = fn[len(REPO) + 1:]
        else:
            fn = os.path.basename(fn)
        inner = f"{rand_file[0]}" if rand_file else "?"
        return f"{fn}:{f.f_code.co_name}:{f.f_lineno}/{inner}"

    def _mode(self):
        i = self.n
        self.n += 1
        if self.schedule in ("lo", "hi", "mid", "seeded"):
            return self.schedule
        if self.schedule == "script":
            return self.script[i] if i < len(self.script) else "seeded"
        raise ValueError(self.schedule)

    def _note(self, kind, mode):
        site = self._site()
        self.log.append((site, kind, mode))
        self.sites.setdefault(site + "#" + kind, set()).add(mode)

    # -- draws ---------------------------------------------------------------------------------
    def randint(self, a, b):
        if a > b:
            # same contract as the stdlib: empty range
            self._note("randint", "empty")
            raise ValueError(f"empty range in randrange({a}, {b + 1})")
        m = self._mode()
        self._note("randint", m)
        if m == "lo":
            return a
        if m == "hi":
            return b
        if m == "mid":
            return (a + b) // 2
        return a + self._randbelow(b - a + 1)

    def randrange(self, start, stop=None, step=1):
        if stop is None:
            start, stop = 0, start
        if step != 1:
            return super().randrange(start, stop, step)
        return self.randint(start, stop - 1)

    def uniform(self, a, b):
        m = self._mode()
        self._note("uniform", m)
        if m == "lo":
            return a
        if m == "hi":
            return b
        if m == "mid":
            return a + (b - a) / 2
        return super().uniform(a, b)

    def choice(self, seq):
        if not len(seq):
            self._note("choice", "empty")
            raise IndexError("Cannot choose from an empty sequence")
        m = self._mode()
        self._note("choice", m)
        if m == "lo":
            return seq[0]
        if m == "hi":
            return seq[len(seq) - 1]
        if m == "mid":
            return seq[len(seq) // 2]
        return super().choice(seq)

    def random(self):
        # used internally by Random.choice/shuffle of the superclass as well: do not count those
        return super().random()

    def shuffle(self, x):
        m = self._mode()
        self._note("shuffle", m)
        if m == "lo":
            return None
        if m == "hi":
            x.reverse()
            return None
        return super().shuffle(x)


@contextlib.contextmanager
def installed(adv):
    """Rebind the global `random` of d42.generation._random to `adv` for the duration."""
    m = mod("d42.generation._random")
    old = m.random
    m.random = adv
    try:
        yield adv
    finally:
        m.random = old


def make_generator():
    """A harness-constructed Generator wired like d42.generation.__init__ does."""
    g = mod("d42.generation")
    rnd = g.Random()
    return g.Generator(rnd, g.RegexGenerator(rnd))


def schedules(tier, ndraws, rng):
    """List of (name, kwargs) schedules to run for a case that consumed `ndraws` draws (seeded run)."""
    out = [("lo", dict(schedule="lo")), ("hi", dict(schedule="hi")), ("mid", dict(schedule="mid"))]
    for i in range(2 if tier == "quick" else 4):
        out.append((f"seeded{i}", dict(schedule="seeded", seed=rng.getrandbits(32))))
    if tier == "thorough":
        if ndraws <= 6:
            import itertools
            for vec in itertools.product(("lo", "hi"), repeat=ndraws):
                out.append(("x" + "".join(v[0] for v in vec), dict(schedule="script", script=list(vec))))
        else:
            for i in range(min(ndraws, 16)):
                for ext in ("lo", "hi"):
                    out.append((f"flip{i}{ext}", dict(schedule="script", seed=rng.getrandbits(32),
                                                      script=["seeded"] * i + [ext])))
            for j in range(8):
                out.append((f"rs{j}", dict(schedule="script", seed=rng.getrandbits(32),
                                           script=[rng.choice(("lo", "hi", "seeded")) for _ in range(ndraws)])))
    else:
        for j in range(2):
            out.append((f"rs{j}", dict(schedule="script", seed=rng.getrandbits(32),
                                       script=[rng.choice(("lo", "hi", "seeded")) for _ in range(min(ndraws, 64))])))
    return out
