"""A forwarding CustomSchema defined in the harness (C16): every hook delegates to an inner built-in schema,
passing through path / indent / value and **kwargs, and counts the positions it was visited in."""
from .common import bootstrap

bootstrap()

from d42.custom_type import CustomSchema, Props, register_type  # noqa: E402

COUNTS = {}
SEEN_KWARGS = []   # (op, kwargs keys) of every hook call, cleared by the monitor before an observed call


def _note(op, kwargs=None):
    COUNTS[op] = COUNTS.get(op, 0) + 1
    if kwargs is not None:
        SEEN_KWARGS.append((op, dict(kwargs)))


class FwdProps(Props):
    @property
    def inner(self):
        return self.get("inner")


class FwdSchema(CustomSchema[FwdProps]):
    def __rv_inner__(self):
        return self.props.inner

    def __represent__(self, visitor, *, indent=0, **kwargs):
        _note("represent", kwargs)
        return self.props.inner.__accept__(visitor, indent=indent, **kwargs)

    def __generate__(self, visitor, **kwargs):
        _note("generate", kwargs)
        return self.props.inner.__accept__(visitor, **kwargs)

    def __validate__(self, visitor, *, value, path, **kwargs):
        _note("validate", kwargs)
        return self.props.inner.__accept__(visitor, value=value, path=path, **kwargs)

    def __substitute__(self, visitor, *, value, **kwargs):
        _note("substitute", kwargs)
        res = self.props.inner.__accept__(visitor, value=value, **kwargs)
        return self.__class__(self.props.update(inner=res))


class FwdChild(FwdSchema):
    """Inherits every hook from FwdSchema."""


class _Hooks:
    """Hooks supplied by a mixin."""
    __rv_inner__ = FwdSchema.__rv_inner__
    __represent__ = FwdSchema.__represent__
    __generate__ = FwdSchema.__generate__
    __validate__ = FwdSchema.__validate__
    __substitute__ = FwdSchema.__substitute__


class FwdMixed(CustomSchema[FwdProps], _Hooks):
    pass


register_type("rv_fwd", FwdSchema)
register_type("rv_fwd_child", FwdChild)
register_type("rv_fwd_mixed", FwdMixed)
VARIANTS = (FwdSchema, FwdSchema, FwdChild, FwdMixed)
_counter = [0]


def wrap(schema, n=1):
    """Wrap n times; the forwarding class rotates deterministically (own hooks / inherited / from a mixin)."""
    for _ in range(n):
        cls = VARIANTS[_counter[0] % len(VARIANTS)]
        _counter[0] += 1
        schema = cls(FwdProps().update(inner=schema))
    return schema
