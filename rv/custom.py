"""A forwarding CustomSchema defined in the harness (C16): every hook delegates to an inner built-in schema,
passing through path / indent / value and **kwargs, and counts the positions it was visited in."""
from .common import bootstrap

bootstrap()

from d42.custom_type import CustomSchema, Props, register_type  # noqa: E402

COUNTS = {}
SEEN_KWARGS = []   # (op, kwargs keys) of every hook call, cleared by the monitor before an observed call


def _note(op, kwargs=None):
    COUNTS[op] = COUNTS.get(op, 0) + 1
    if kwargs is not None:
        SEEN_KWARGS.append((op, dict(kwargs)))


class FwdProps(Props):
    @property
    def inner(self):
        return self.get("inner")


class FwdSchema(CustomSchema[FwdProps]):
    def __rv_inner__(self):
        return self.props.inner

    def __represent__(self, visitor, *, indent=0, **kwargs):
        _note("represent", kwargs)
        return self.props.inner.__accept__(visitor, indent=indent, **kwargs)

    def __generate__(self, visitor, **kwargs):
        _note("generate", kwargs)
        return self.props.inner.__accept__(visitor, **kwargs)

    def __validate__(self, visitor, *, value, path, **kwargs):
        _note("validate", kwargs)
        return self.props.inner.__accept__(visitor, value=value, path=path, **kwargs)

    def __substitute__(self, visitor, *, value, **kwargs):
        _note("substitute", kwargs)
        res = self.props.inner.__accept__(visitor, value=value, **kwargs)
        return self.__class__(self.props.update(inner=res))


class FwdChild(FwdSchema):
    """Inherits every hook from FwdSchema."""


class FwdSet(FwdSchema):
    """Stores the substituted inner schema through the public Props.set (not Props.update)."""

    def __substitute__(self, visitor, *, value, **kwargs):
        _note("substitute", kwargs)
        res = self.props.inner.__accept__(visitor, value=value, **kwargs)
        return self.__class__(self.props.set("inner", res))


class _Hooks:
    """Hooks supplied by a mixin."""
    __rv_inner__ = FwdSchema.__rv_inner__
    __represent__ = FwdSchema.__represent__
    __generate__ = FwdSchema.__generate__
    __validate__ = FwdSchema.__validate__
    __substitute__ = FwdSchema.__substitute__


class FwdMixed(CustomSchema[FwdProps], _Hooks):
    pass


register_type("rv_fwd", FwdSchema)
register_type("rv_fwd_child", FwdChild)
register_type("rv_fwd_mixed", FwdMixed)
register_type("rv_fwd_set", FwdSet)
VARIANTS = (FwdSchema, FwdSet, FwdChild, FwdMixed)
_counter = [0]


def wrap(schema, n=1):
    """Wrap n times; the forwarding class rotates deterministically (own hooks / inherited / from a mixin)."""
    for _ in range(n):
        cls = VARIANTS[_counter[0] % len(VARIANTS)]
        _counter[0] += 1
        schema = cls(FwdProps().update(inner=schema))
    return schema


class IntLikeProps(Props):
    @property
    def value(self):
        return self.get("value")


class IntLikeSchema(CustomSchema[IntLikeProps]):
    """A custom type that validates by itself, in the style of the documentation: it builds its own result and errors
    from the visitor's factories and the path it is given."""

    def __call__(self, value):
        return self.__class__(self.props.update(value=value))

    def __represent__(self, visitor, *, indent=0, **kwargs):
        from niltype import Nil
        r = f"{visitor.name}.rv_intlike"
        return r + (f"({self.props.value!r})" if self.props.value is not Nil else "")

    def __generate__(self, visitor, **kwargs):
        from niltype import Nil
        return self.props.value if self.props.value is not Nil else visitor.random.random_int(0, 9)

    def __validate__(self, visitor, *, value, path, **kwargs):
        from niltype import Nil
        from d42.validation.errors import TypeValidationError, ValueValidationError
        result = visitor.make_validation_result()
        if not isinstance(value, int) or isinstance(value, bool):
            return result.add_error(TypeValidationError(path, value, int))
        if self.props.value is not Nil and value != self.props.value:
            result.add_error(ValueValidationError(path, value, self.props.value))
        return result

    def __substitute__(self, visitor, *, value, **kwargs):
        from d42.substitution.errors import make_substitution_error
        result = self.__accept__(visitor.validator, value=value)
        if result.has_errors():
            raise make_substitution_error(result, visitor.formatter)
        return self.__class__(self.props.update(value=value))


register_type("rv_intlike", IntLikeSchema)


def intlike(value=None):
    s = IntLikeSchema()
    return s if value is None else s(value)
