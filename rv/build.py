"""spec -> real d42 schema, through the public DSL only."""
from .spec import ELL


def _len_args(lenf):
    if lenf[0] == "eq":
        return (lenf[1],)
    if lenf[0] == "min":
        return (lenf[1], ...)
    if lenf[0] == "max":
        return (..., lenf[1])
    return (lenf[1], lenf[2])


STR_ORDER_DEFAULT = ("alphabet", "substr", "pattern", "len")


def build(spec, *, wrapper=None, str_order=STR_ORDER_DEFAULT, order_rng=None):
    """Build the schema.  `wrapper(schema, n)` wraps nodes carrying "wrap": n (C16)."""
    from d42 import optional, schema
    k = spec["k"]
    if k == "none":
        s = schema.none
    elif k in ("bool", "bytes", "uuid4", "datetime", "date"):
        s = getattr(schema, k)
        if spec.get("value") is not None:
            s = s(spec["value"])
    elif k in ("int", "float"):
        s = getattr(schema, k)
        if spec.get("value") is not None:
            s = s(spec["value"])
        names = [f for f in ("min", "max", "precision") if spec.get(f) is not None]
        if order_rng is not None:
            order_rng.shuffle(names)
        for f in names:
            s = getattr(s, f)(spec[f])
    elif k == "str":
        s = schema.str
        if spec.get("value") is not None:
            s = s(spec["value"])
        if order_rng is not None:
            str_order = list(str_order)
            order_rng.shuffle(str_order)
        for f in str_order:
            if spec.get(f) is None:
                continue
            if f == "alphabet":
                s = s.alphabet(spec["alphabet"])
            elif f == "substr":
                s = s.contains(spec["substr"])
            elif f == "pattern":
                s = s.regex(spec["pattern"])
            elif f == "len":
                s = s.len(*_len_args(spec["len"]))
    elif k == "list":
        s = schema.list
        f = spec.get("form", "bare")
        if f == "typed":
            s = s(build(spec["type"], wrapper=wrapper, order_rng=order_rng))
        elif f == "elems":
            s = s([... if e == ELL else build(e, wrapper=wrapper, order_rng=order_rng) for e in spec["elems"]])
        if spec.get("len") is not None:
            s = s.len(*_len_args(spec["len"]))
    elif k == "dict":
        s = schema.dict
        if spec.get("keys") is not None:
            d = {}
            entries = [(optional(key) if opt else key, build(sub, wrapper=wrapper, order_rng=order_rng))
                       for key, sub, opt in spec["keys"]]
            if spec.get("relaxed"):
                pos = spec.get("relaxed_pos")
                if pos is None or pos > len(entries):
                    pos = len(entries)
                entries.insert(pos, (..., ...))
            for a, b in entries:
                d[a] = b
            s = s(d)
    elif k == "any":
        s = schema.any
        if spec.get("types") is not None:
            s = s(*[build(t, wrapper=wrapper, order_rng=order_rng) for t in spec["types"]])
    elif k == "alias":
        s = schema.alias(spec["name"], build(spec["target"], wrapper=wrapper, order_rng=order_rng))
    else:
        raise ValueError(k)
    n = spec.get("wrap", 0)
    if n and wrapper is not None:
        s = wrapper(s, n)
    return s
