"""Independent conforming-value generator (witnesses), one-step perturbations, hostile zoo."""
import collections
import datetime as _dt
import decimal
import enum
import fractions
import math
import string
import uuid as _uuid

from .spec import ELL, len_bounds, len_ok, list_form


class Unsat(Exception):
    pass


DEFAULT_CHARS = string.ascii_letters + string.digits + " -_"
FILL_CHARS = DEFAULT_CHARS + "éü.,"


def _pick_len(rng, lenf, need=0, mode="rand", cap=6):
    lo, hi = len_bounds(lenf)
    lo = max(lo, need, 0)
    if hi is not None and hi < lo:
        raise Unsat("len")
    if mode == "min":
        return lo
    if mode == "max":
        return hi if hi is not None else lo + cap
    top = hi if hi is not None else lo + cap
    top = min(top, lo + cap)
    return rng.randint(lo, top)


def arbitrary(rng, depth=1):
    """Arbitrary plain filler value (for free positions)."""
    r = rng.random()
    if r < 0.25:
        return rng.randint(-5, 5)
    if r < 0.45:
        return "".join(rng.choice("pqrs") for _ in range(rng.randint(0, 3)))
    if r < 0.55:
        return None
    if r < 0.65:
        return rng.choice((True, False))
    if r < 0.75:
        return rng.choice((0.5, -2.25, 10.0, 1.0, 0.0, 2.0, -1.0))
    if depth <= 0:
        return 0
    if r < 0.88:
        return [arbitrary(rng, depth - 1) for _ in range(rng.randint(0, 2))]
    return {k: arbitrary(rng, depth - 1) for k in rng.sample(["p", "q", "r"], rng.randint(0, 2))}


def witness(spec, rng, mode="rand"):
    """Return a value the *reference* should accept, or raise Unsat.

    mode: "rand" | "min" | "max" (extreme lengths / bounds).
    """
    k = spec["k"]
    if k == "alias":
        return witness(spec["target"], rng, mode)
    if k == "any":
        if spec.get("types") is None:
            return arbitrary(rng)
        if len(spec["types"]) == 0:
            raise Unsat("empty any")
        order = list(range(len(spec["types"])))
        rng.shuffle(order)
        for i in order:
            try:
                return witness(spec["types"][i], rng, mode)
            except Unsat:
                continue
        raise Unsat("any")
    if k == "none":
        return None
    if k == "bool":
        return spec["value"] if spec.get("value") is not None else rng.choice((True, False))
    if k == "bytes":
        return spec["value"] if spec.get("value") is not None else rng.choice((b"", b"xy", b"\x00\x01z"))
    if k == "uuid4":
        return spec["value"] if spec.get("value") is not None else _uuid.UUID(int=rng.getrandbits(128), version=4)
    if k == "datetime":
        if spec.get("value") is not None:
            return spec["value"]
        return _dt.datetime(2000 + rng.randint(0, 30), rng.randint(1, 12), rng.randint(1, 28), rng.randint(0, 23))
    if k == "date":
        if spec.get("value") is not None:
            return spec["value"]
        return _dt.date(2000 + rng.randint(0, 30), rng.randint(1, 12), rng.randint(1, 28))
    if k == "int":
        lo, hi = spec.get("min"), spec.get("max")
        if spec.get("value") is not None:
            v = spec["value"]
            if (lo is not None and v < lo) or (hi is not None and v > hi):
                raise Unsat("int value outside bounds")
            return v
        if lo is not None and hi is not None and lo > hi:
            raise Unsat("int min>max")
        if mode == "min" and lo is not None:
            return lo
        if mode == "max" and hi is not None:
            return hi
        if lo is None and hi is None:
            return rng.choice((0, 1, -3, 12345, 2 ** 40, -2 ** 70))
        if lo is None:
            return hi - rng.choice((0, 1, 10, 2 ** 33))
        if hi is None:
            return lo + rng.choice((0, 1, 10, 2 ** 33))
        return rng.randint(lo, hi)
    if k == "float":
        lo, hi = spec.get("min"), spec.get("max")
        if spec.get("value") is not None:
            v = spec["value"]
            if (lo is not None and v < lo) or (hi is not None and v > hi):
                raise Unsat("float value outside bounds")
            return v
        if lo is not None and hi is not None and lo > hi:
            raise Unsat("float min>max")
        if mode == "min" and lo is not None:
            return lo
        if mode == "max" and hi is not None:
            return hi
        if lo is None and hi is None:
            return rng.choice((0.0, 1.25, -3.5, 1e10, -2.5e-3))
        if lo is None:
            return hi if math.isinf(hi) else hi - abs(hi) * rng.choice((0.0, 0.1)) - rng.choice((0.0, 1.0))
        if hi is None or math.isinf(hi):
            return lo if math.isinf(lo) else lo + abs(lo) * rng.choice((0.0, 0.1)) + rng.choice((0.0, 1.0))
        v = lo + (hi - lo) * rng.random()
        return min(max(v, lo), hi)
    if k == "str":
        return _witness_str(spec, rng, mode)
    if k == "list":
        return _witness_list(spec, rng, mode)
    if k == "dict":
        if spec.get("keys") is None:
            return {} if mode == "min" else {"w": arbitrary(rng, 0)} if rng.random() < 0.5 else {}
        out = {}
        for key, sub, opt in spec["keys"]:
            if opt and (mode == "min" or (mode == "rand" and rng.random() < 0.5)):
                continue
            if opt:
                try:
                    out[key] = witness(sub, rng, mode)
                except Unsat:
                    pass
            else:
                out[key] = witness(sub, rng, mode)
        if spec.get("relaxed") and mode != "min" and rng.random() < 0.4:
            extra = "extra_%d" % rng.randint(0, 99)
            if extra not in out and not any(extra == kk for kk, _, _ in spec["keys"]):
                out[extra] = arbitrary(rng, 1)
        return out
    raise AssertionError(k)


def _witness_str(spec, rng, mode):
    if spec.get("value") is not None:
        v = spec["value"]
        from .ref import accepts
        if accepts(spec, v) is not True:
            raise Unsat("str value")
        return v
    if spec.get("pattern") is not None:
        ex = spec.get("examples") or []
        from .ref import accepts
        good = [e for e in ex if accepts(spec, e) is True]
        if not good:
            raise Unsat("pattern (no example)")
        return rng.choice(good)
    sub = spec.get("substr") or ""
    alpha = spec.get("alphabet")
    if alpha is not None and any(ch not in alpha for ch in sub):
        raise Unsat("substr outside alphabet")
    n = _pick_len(rng, spec.get("len"), need=len(sub), mode=mode)
    fill = n - len(sub)
    chars = alpha if alpha is not None else FILL_CHARS
    if fill > 0 and not chars:
        # empty alphabet: only len(sub) (== 0 chars from alphabet) is possible
        lo, hi = len_bounds(spec.get("len"))
        if len_ok(spec.get("len"), len(sub)):
            return sub
        raise Unsat("empty alphabet")
    pre = rng.randint(0, fill) if fill > 0 else 0
    return "".join(rng.choice(chars) for _ in range(pre)) + sub + \
        "".join(rng.choice(chars) for _ in range(fill - pre))


def _witness_list(spec, rng, mode):
    form, els = list_form(spec)
    n = len(els)
    lenf = spec.get("len")
    if form == "untyped":
        m = _pick_len(rng, lenf, mode=mode, cap=3)
        return [arbitrary(rng, 1) for _ in range(m)]
    if form == "typed":
        lo, hi = len_bounds(lenf)
        try:
            m = _pick_len(rng, lenf, mode=mode, cap=3)
            return [witness(els[0], rng, mode) for _ in range(m)]
        except Unsat:
            if len_ok(lenf, 0):
                return []
            raise
    if form == "exact":
        if not len_ok(lenf, n):
            raise Unsat("exact len")
        return [witness(e, rng, mode) for e in els]
    m = _pick_len(rng, lenf, need=n, mode=mode, cap=3)
    core = [witness(e, rng, mode) for e in els]
    pad = [arbitrary(rng, 1) for _ in range(m - n)]
    if form == "head":
        return core + pad
    if form == "tail":
        return pad + core
    cut = rng.randint(0, len(pad))
    return pad[:cut] + core + pad[cut:]


def satisfiable(spec, rng):
    try:
        return True, witness(spec, rng)
    except Unsat as e:
        return False, str(e)


# ----------------------------------------------------------------------------------------------
# one-step perturbations

OTHER_KIND_VALUES = [None, True, 0, 1, -1, 7, 0.5, 1.0, "", "zz", b"zz", [], [0], {}, {"zz": 0},
                     (1,), _uuid.UUID("5a1f2e0c-9d3b-1c7a-8f21-0123456789ab"),
                     _uuid.UUID("5a1f2e0c-9d3b-4c7a-8f21-0123456789ff"),
                     _dt.datetime(2011, 11, 11, 11, 11), _dt.date(2011, 11, 11), bytearray(b"q"),
                     float("inf"), 10 ** 40, ...]


def scalar_neighbours(v, rng):
    """Values one step away from scalar v (same kind)."""
    out = []
    if isinstance(v, bool):
        out += [not v]
    elif isinstance(v, int):
        out += [v + 1, v - 1, -v if v else 5, v + 2 ** 64]
    elif isinstance(v, float):
        if math.isfinite(v):
            step = max(abs(v) * 1e-3, 1e-3)
            out += [v + step, v - step, v + 1.0, -v if v else 1.0, v * 2 + 3]
        else:
            out += [0.0, -v]
    elif isinstance(v, str):
        out += [v + "~", "~" + v, v[:-1] if v else "~", v[1:] if v else "~~", v.swapcase() if v.swapcase() != v else v + "x",
                v[:len(v) // 2] + "¤" + v[len(v) // 2:]]
        if len(v) >= 2:
            out.append(v[::-1] if v[::-1] != v else v + "!")
            i = rng.randrange(len(v))
            out.append(v[:i] + v[i + 1:])
            out.append(v[:i] + ("#" if v[i] != "#" else "@") + v[i + 1:])
    elif isinstance(v, bytes):
        out += [v + b"~", v[:-1] if v else b"~"]
    elif isinstance(v, _uuid.UUID):
        out += [_uuid.UUID(int=v.int ^ 1), _uuid.UUID(int=v.int, version=rng.choice((1, 3, 5))),
                _uuid.UUID(int=v.int & ~(0xC000 << 48))]    # variant bits cleared (NCS): version nibble kept, .version None
    elif isinstance(v, _dt.datetime):
        out += [v + _dt.timedelta(seconds=1), v - _dt.timedelta(days=400) if v.year > 2 else v + _dt.timedelta(days=400), v.date()]
        if v.tzinfo is None:
            out.append(v.replace(tzinfo=_dt.timezone.utc))
        else:
            out.append(v.replace(tzinfo=None))
    elif isinstance(v, _dt.date):
        out += [v + _dt.timedelta(days=1) if v < _dt.date.max else v - _dt.timedelta(days=1),
                _dt.datetime(v.year, v.month, v.day)]
    elif v is None:
        out += [0, False, "None"]
    return out


def type_swaps(v, rng, k=4):
    pool = [x for x in OTHER_KIND_VALUES if type(x) is not type(v)]
    out = rng.sample(pool, min(k, len(pool)))
    # targeted swaps
    if isinstance(v, bool):
        out.append(int(v))
    elif isinstance(v, int):
        out += [float(v) if abs(v) < 2 ** 53 else 0.0, str(v), v == 1 if v in (0, 1) else True]
    elif isinstance(v, float):
        if math.isfinite(v):
            out += [int(v), repr(v)]
    elif isinstance(v, str):
        out += [v.encode("utf-8", "replace"), [v], list(v)]
    elif isinstance(v, bytes):
        out += [bytearray(v), v.decode("latin1")]
    elif isinstance(v, list):
        out += [tuple(v), {i: x for i, x in enumerate(v)}]
    elif isinstance(v, dict):
        out += [list(v.items()), list(v)]
        # dict subclasses are dicts: same verdict as the plain dict (and a lookup must not insert keys)
        try:
            out += [DictSub(v), collections.defaultdict(list, v), collections.OrderedDict(v)]
        except Exception:
            pass
    elif isinstance(v, _uuid.UUID):
        out += [str(v), v.int]
    elif isinstance(v, _dt.datetime):
        out += [v.isoformat(), v.date()]
    elif isinstance(v, _dt.date):
        out += [v.isoformat(), _dt.datetime(v.year, v.month, v.day)]
    return out


def perturbations(v, rng, spec=None, path=(), budget=None, depth=0):
    """Yield (new_root_builder_result, description) for one-step perturbations at every depth.

    Yields (value, desc) where value is a *new* root value with exactly one position changed.
    spec (if given) guides constraint-aimed perturbations (bounds, lengths, alphabets ...).
    """
    # perturb this node
    for w in scalar_neighbours(v, rng):
        yield w, ("neighbour", path)
    for w in type_swaps(v, rng):
        yield w, ("typeswap", path)
    node = _resolve(spec)
    if node is not None:
        for w, why in aimed(node, v, rng):
            yield w, (why, path)
    if isinstance(v, list):
        n = len(v)
        for i in sorted({0, n // 2, n - 1} & set(range(n))):
            yield v[:i] + v[i + 1:], ("drop", path + (i,))
        filler = v[0] if n else 0
        yield v + [filler], ("append_same", path)
        yield v + [OddValue()], ("append_odd", path)
        yield [OddValue()] + v, ("prepend_odd", path)
        if n >= 2:
            yield v[1:] + v[:1], ("rotate", path)
            yield v[:n // 2] + [OddValue()] + v[n // 2:], ("insert_mid", path)
        subspecs = _elem_specs(node, v)
        for i, x in enumerate(v):
            if depth < 6:
                for w, d in perturbations(x, rng, subspecs[i] if subspecs else None, path + (i,), budget, depth + 1):
                    yield v[:i] + [w] + v[i + 1:], d
    elif isinstance(v, dict):
        for key in list(v):
            w = dict(v)
            del w[key]
            yield w, ("delkey", path + (key,))
        w = dict(v)
        newk = "zz_extra"
        while newk in w:
            newk += "_"
        w[newk] = 0
        yield w, ("addkey", path)
        if node is not None and node["k"] == "dict" and node.get("keys"):
            for key, sub, opt in node["keys"]:
                if key not in v:
                    try:
                        val = witness(sub, rng)
                    except Unsat:
                        continue
                    w = dict(v)
                    w[key] = val
                    yield w, ("add_declared_key", path + (key,))
                    w = dict(v)
                    w[key] = OddValue()
                    yield w, ("add_declared_key_bad", path + (key,))
        keyspecs = _key_specs(node)
        for key, x in v.items():
            if depth < 6:
                sub = None
                for kk, ss in keyspecs:
                    try:
                        if kk == key and hash(kk) == hash(key):
                            sub = ss
                            break
                    except TypeError:
                        pass
                for w, d in perturbations(x, rng, sub, path + (key,), budget, depth + 1):
                    nv = dict(v)
                    nv[key] = w
                    yield nv, d


class OddValue:
    """An opaque object no schema position accepts except `any`/untyped."""

    def __repr__(self):
        return "<Odd>"

    def __eq__(self, other):
        return isinstance(other, OddValue)

    def __hash__(self):
        return 77


def _resolve(spec):
    while spec is not None and spec != ELL and spec["k"] == "alias":
        spec = spec["target"]
    if spec == ELL:
        return None
    return spec


def _elem_specs(node, v):
    """Best-effort: the spec governing each list position (None when free/ambiguous)."""
    if node is None or node["k"] != "list":
        return None
    form, els = list_form(node)
    n = len(v)
    if form == "typed":
        return [els[0]] * n
    if form == "exact":
        return [els[i] if i < len(els) else None for i in range(n)]
    if form == "head":
        return [els[i] if i < len(els) else None for i in range(n)]
    if form == "tail":
        off = n - len(els)
        return [els[i - off] if 0 <= i - off < len(els) else None for i in range(n)]
    return [None] * n


def _key_specs(node):
    if node is None or node["k"] != "dict" or not node.get("keys"):
        return []
    return [(k, s) for k, s, _ in node["keys"]]


def aimed(node, v, rng):
    """Perturbations aimed at the constraints declared on this node."""
    k = node["k"]
    if k == "any" and node.get("types"):
        for t in node["types"]:
            t = _resolve(t)
            if t is not None:
                yield from aimed(t, v, rng)
        return
    fx = node.get("value")
    if fx is not None:
        # an *equal instance of a subclass* of the fixed value's type still has the type and equals the value
        try:
            if k == "int" and not isinstance(fx, bool):
                yield IntSub(fx), "equal_subclass_instance"
                if fx in (0, 1):
                    yield bool(fx), "equal_subclass_instance"
            elif k == "str":
                yield StrSub(fx), "equal_subclass_instance"
            elif k == "bytes":
                yield BytesSub(fx), "equal_subclass_instance"
            elif k == "float":
                yield FloatSub(fx), "equal_subclass_instance"
            # (date / datetime subclasses are left out on purpose: CPython compares a *subclass* of date with a datetime
            # by the date part only, a quirk of the stdlib that is no fair input for these oracles)
        except Exception:
            pass
    if k == "int" and isinstance(v, int) and not isinstance(v, bool):
        for f, d in (("min", -1), ("max", +1)):
            if node.get(f) is not None:
                yield node[f] + d, "bound" + f
                yield node[f], "at" + f
        if node.get("value") is not None:
            yield node["value"] + 1, "valne"
    elif k == "float" and isinstance(v, float):
        for f, d in (("min", -1), ("max", +1)):
            b = node.get(f)
            if b is not None and math.isfinite(b):
                step = max(abs(b) * 1e-3, 1e-3)
                yield b + d * step, "bound" + f
                yield b, "at" + f
                yield math.nextafter(b, d * math.inf), "ulp" + f
        if node.get("value") is not None and math.isfinite(node["value"]):
            fx = node["value"]
            p = node.get("precision")
            if p is not None:
                yield fx + 0.3 * 10 ** -p, "within_grid"
                yield fx + 2.0 * 10 ** -p, "beyond_grid"
                yield fx - 2.0 * 10 ** -p, "beyond_grid"
            yield fx * (1 + 1e-12) if fx else 1e-300, "within_tol"
        yield float("nan"), "nan"
        yield float("inf"), "inf"
        yield float("-inf"), "-inf"
    elif k == "str" and isinstance(v, str):
        lo, hi = len_bounds(node.get("len"))
        al = node.get("alphabet")
        ch = (al[0] if al else "a")
        if node.get("len") is not None:
            if hi is not None:
                yield v + ch * (hi + 1 - len(v)) if len(v) <= hi else v, "len_over"
            if lo > 0:
                yield v[:lo - 1], "len_under"
                yield v[:lo], "len_at_lo"
        if al is not None:
            bad = next((c for c in "#Zq¤" if c not in al), None)
            if bad is not None:
                i = rng.randint(0, len(v))
                yield v[:i] + bad + v[i:], "alphabet_out"
                if v:
                    yield v[:i % len(v)] + bad + v[i % len(v) + 1:], "alphabet_repl"
        sub = node.get("substr")
        if sub:
            i = v.find(sub)
            if i >= 0:
                yield v[:i] + v[i + 1:], "substr_break"
                yield v[:i] + sub[:-1] + ("¤" if al is None else ch) + v[i + len(sub):], "substr_repl"
        if node.get("pattern") is not None:
            yield "", "pattern_empty"
            yield "¤", "pattern_odd"
            yield v + "\n", "pattern_nl"
            yield v[:-1], "pattern_cut"
    elif k == "list" and isinstance(v, list):
        lo, hi = len_bounds(node.get("len"))
        if node.get("len") is not None:
            filler = v[-1] if v else 0
            if hi is not None and hi < 64:
                yield v + [filler] * (hi + 1 - len(v)), "len_over"
            if lo > 0:
                yield v[:lo - 1], "len_under"
        form, els = list_form(node)
        if form in ("tail", "contains") and v:
            yield [OddValue()] + v, "shift_right"
            yield v + [OddValue()], "shift_left"
        if form == "contains" and len(els) >= 2 and len(v) >= len(els):
            # split the window: insert an odd value inside the first conforming window
            yield v[:1] + [OddValue()] + v[1:], "split_window"
        if form == "contains" and len(els) >= 2 and v:
            # a partial copy of the beginning in front of the list: the real window now starts inside a run that a
            # window search has already partly matched (skip-ahead / shared-buffer searches step over it)
            for i in (1, 2, 3):
                if len(v) >= i:
                    yield v[:i] + v, "self_overlap"
    elif k == "uuid4" and isinstance(v, _uuid.UUID):
        for ver in (1, 3, 5):
            yield _uuid.UUID(int=v.int, version=ver), "uuid_version"
        yield _uuid.UUID(int=v.int & ~(0xC000 << 48)), "uuid_variant"
    elif k == "dict" and isinstance(v, dict) and node.get("keys") is not None:
        pass


# ----------------------------------------------------------------------------------------------
# hostile zoo (C08)

class IntSub(int):
    pass


class FloatSub(float):
    pass


class StrSub(str):
    pass


class BytesSub(bytes):
    pass


class ListSub(list):
    pass


class DictSub(dict):
    pass


class UUIDSub(_uuid.UUID):
    pass


class DateTimeSub(_dt.datetime):
    pass


class DateSub(_dt.date):
    pass


class Color(enum.IntEnum):
    RED = 1
    BLUE = 2


class Plain:
    pass


class SameRepr:
    """Distinct, hashable objects that all print the same."""

    def __repr__(self):
        return "<same>"


def _gen():
    yield 1


def zoo():
    """Return an ordered dict name -> value.  Rebuilt per call (some members are mutable)."""
    z = collections.OrderedDict()
    z["inf"] = float("inf")
    z["-inf"] = float("-inf")
    z["nan"] = float("nan")
    z["0.0"] = 0.0
    z["-0.0"] = -0.0
    z["1e308"] = 1e308
    z["-1e308"] = -1e308
    z["5e-324"] = 5e-324
    z["1.7976931348623157e308"] = 1.7976931348623157e308
    z["10**400"] = 10 ** 400
    z["-10**400"] = -10 ** 400
    z["True"] = True
    z["False"] = False
    z["0"] = 0
    z["1"] = 1
    z["None"] = None
    z["Decimal"] = decimal.Decimal("1.5")
    z["Decimal_nan"] = decimal.Decimal("NaN")
    z["Decimal_inf"] = decimal.Decimal("Infinity")
    z["Fraction"] = fractions.Fraction(1, 3)
    z["complex"] = complex(1, 2)
    z["tuple"] = (1, 2)
    z["tuple_empty"] = ()
    z["set"] = {1, 2}
    z["frozenset"] = frozenset({1})
    z["bytearray"] = bytearray(b"ab")
    z["memoryview"] = memoryview(b"ab")
    z["range"] = range(3)
    z["IntSub"] = IntSub(5)
    z["FloatSub"] = FloatSub(1.5)
    z["FloatSub_inf"] = FloatSub("inf")
    z["StrSub"] = StrSub("ab")
    z["BytesSub"] = BytesSub(b"ab")
    z["ListSub"] = ListSub([1, 2])
    z["DictSub"] = DictSub(a=1)
    z["UUIDSub4"] = UUIDSub("5a1f2e0c-9d3b-4c7a-8f21-0123456789ab")
    z["DateTimeSub"] = DateTimeSub(2020, 1, 1)
    z["DateSub"] = DateSub(2020, 1, 1)
    z["IntEnum"] = Color.RED
    z["OrderedDict"] = collections.OrderedDict(a=1)
    z["defaultdict"] = collections.defaultdict(list, a=[1])
    z["UserDict"] = collections.UserDict(a=1)
    z["UserList"] = collections.UserList([1])
    z["uuid1"] = _uuid.UUID("5a1f2e0c-9d3b-1c7a-8f21-0123456789ab")
    z["uuid3"] = _uuid.UUID("5a1f2e0c-9d3b-3c7a-8f21-0123456789ab")
    z["uuid4"] = _uuid.UUID("5a1f2e0c-9d3b-4c7a-8f21-0123456789ab")
    z["uuid5"] = _uuid.UUID("5a1f2e0c-9d3b-5c7a-8f21-0123456789ab")
    z["uuid_nil"] = _uuid.UUID(int=0)
    z["uuid_v4nibble_ncs"] = _uuid.UUID("5a1f2e0c-9d3b-4c7a-0f21-0123456789ab")
    z["uuid_v4nibble_ms"] = _uuid.UUID("5a1f2e0c-9d3b-4c7a-cf21-0123456789ab")
    z["datetime_naive"] = _dt.datetime(2020, 1, 2, 3, 4, 5)
    z["datetime_aware"] = _dt.datetime(2020, 1, 2, 3, 4, 5, tzinfo=_dt.timezone.utc)
    z["datetime_min"] = _dt.datetime.min
    z["date"] = _dt.date(2020, 1, 2)
    z["date_max"] = _dt.date.max
    z["time"] = _dt.time(1, 2)
    z["timedelta"] = _dt.timedelta(1)
    z["Ellipsis"] = ...
    from niltype import Nil
    z["Nil"] = Nil
    z["NotImplemented"] = NotImplemented
    z["object"] = Plain()
    z["class"] = Plain
    z["type_int"] = int
    z["function"] = _gen
    z["lambda"] = (lambda: 0)
    z["module"] = math
    z["generator"] = _gen()
    z["big_str"] = "x" * (1 << 20)
    z["empty_str"] = ""
    z["nul_str"] = "\x00"
    z["surrogate_str"] = "\ud800"
    z["unicode_str"] = "日本語 é"
    z["empty_bytes"] = b""
    z["empty_list"] = []
    z["empty_dict"] = {}
    rec_l = []
    rec_l.append(rec_l)
    z["rec_list"] = rec_l
    rec_d = {}
    rec_d["self"] = rec_d
    z["rec_dict"] = rec_d
    z["dict_none_key"] = {None: 1}
    z["dict_nan_key"] = {float("nan"): 1}
    z["dict_tuple_key"] = {(1, 2): 1, (): 2}
    z["dict_frozenset_key"] = {frozenset({1}): 1}
    z["dict_obj_key"] = {Plain(): 1}
    z["dict_ellipsis_key"] = {...: ...}
    z["dict_1_True_1.0"] = {1: "a", 2.0: "b", False: "c"}
    z["dict_two_nan_keys"] = {float("nan"): 1, float("nan"): 2}
    z["dict_two_decimal_nan_keys"] = {decimal.Decimal("NaN"): 1, decimal.Decimal("NaN"): 2, decimal.Decimal("NaN"): 3}
    z["dict_two_same_repr_keys"] = {SameRepr(): 1, SameRepr(): 2}
    z["list_same_repr_members"] = [SameRepr(), SameRepr(), float("nan"), float("nan")]
    z["dict_mixed"] = {"a": float("nan"), "b": [float("inf")], 3: (1,), None: {1, 2}}
    z["list_mixed"] = [None, 1, "a", 2.5, b"x", (1,), {1}, ..., float("nan")]
    z["nested_deep"] = [[[[[[[[1]]]]]]]]
    return z


def inject_positions(v, depth=0, limit=6):
    """Yield (setter) closures: positions in v where a hostile member can be injected.

    Each yielded item is a function f(x) -> new root value with x at that position.
    """
    yielded = 0
    if isinstance(v, list):
        n = len(v)
        for i in sorted({0, n // 2, n - 1} & set(range(n))):
            yield (lambda x, i=i: v[:i] + [x] + v[i + 1:]), ("replace", i)
            if depth < 4:
                for f, d in inject_positions(v[i], depth + 1):
                    yield (lambda x, i=i, f=f: v[:i] + [f(x)] + v[i + 1:]), ("in", i) + d
        yield (lambda x: v + [x]), ("append",)
        yield (lambda x: [x] + v), ("prepend",)
    elif isinstance(v, dict):
        for key in list(v)[:4]:
            yield (lambda x, key=key: {**v, key: x}), ("value", repr(key)[:20])
            if depth < 4:
                for f, d in inject_positions(v[key], depth + 1):
                    yield (lambda x, key=key, f=f: {**v, key: f(x)}), ("in", repr(key)[:20]) + d
        yield (lambda x: {**v, "zz_extra": x}), ("extra_value",)

        def as_key(x):
            try:
                hash(x)
            except Exception:
                return None
            w = dict(v)
            try:
                w[x] = 0
            except Exception:
                return None
            return w
        yield as_key, ("extra_key",)


# ----------------------------------------------------------------------------------------------
# hereditary satisfiability

def unsat_members(spec, rng):
    """Paths of proper sub-specs that admit no value (the root itself may still be satisfiable)."""
    from .spec import walk
    out = []
    for path, node in walk(spec):
        if not path:
            continue
        try:
            witness(node, rng)
        except Unsat:
            out.append(path)
    return out


def prune_unsat(spec, rng):
    """A hereditarily satisfiable variant: unsatisfiable alternatives / optional keys dropped,
    typed lists over an unsatisfiable type turned into the empty exact list.  None if impossible."""
    import copy
    k = spec["k"]

    def sat(s):
        try:
            witness(s, rng)
            return True
        except Unsat:
            return False
    if not sat(spec):
        return None
    s = dict(spec)
    if k == "alias":
        t = prune_unsat(spec["target"], rng)
        if t is None:
            return None
        s["target"] = t
    elif k == "any" and spec.get("types") is not None:
        alts = [prune_unsat(t, rng) for t in spec["types"]]
        alts = [a for a in alts if a is not None]
        if not alts:
            return None
        s["types"] = alts
    elif k == "list":
        f = spec.get("form", "bare")
        if f == "typed":
            t = prune_unsat(spec["type"], rng)
            if t is None:
                s = {"k": "list", "form": "elems", "elems": []}
            else:
                s["type"] = t
        elif f == "elems":
            els = []
            for e in spec["elems"]:
                if e == ELL:
                    els.append(e)
                else:
                    t = prune_unsat(e, rng)
                    if t is None:
                        return None
                    els.append(t)
            s["elems"] = els
    elif k == "dict" and spec.get("keys") is not None:
        keys = []
        for key, sub, opt in spec["keys"]:
            t = prune_unsat(sub, rng)
            if t is None:
                if opt:
                    continue
                return None
            keys.append((key, t, opt))
        s["keys"] = keys
        if s.get("relaxed_pos") is not None:
            s["relaxed_pos"] = min(s["relaxed_pos"], len(keys))
    return copy.copy(s)
