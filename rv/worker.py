"""One shard of one check, in its own interpreter."""
import json
import os
import sys
import traceback


def main(argv):
    prop, tier, seed, shard, nshards, outfile = argv[:6]
    seed, shard, nshards = int(seed), int(shard), int(nshards)
    only = None
    if "--only-case" in argv:
        only = int(argv[argv.index("--only-case") + 1])
    from rv.common import bootstrap, case_rng
    bootstrap()
    from rv import runner
    module = runner.load(prop)
    params = runner.tier_params(module, tier)
    ctx = runner.Ctx(prop, tier, seed, shard, nshards, params)
    ctx.only = only
    if hasattr(module, "setup"):
        module.setup(ctx)
    reach = None
    if getattr(module, "REACH_FILES", None) and not getattr(ctx, "_reach", None):
        from rv import probes
        reach = probes.Reach()
        reach.start()
    try:
        if hasattr(module, "run_shard"):
            module.run_shard(ctx)
        else:
            total = params["cases"]
            cases = [only] if only is not None else range(shard, total, nshards)
            import signal

            class CaseTimeout(BaseException):
                pass

            def on_alarm(signum, frame):
                raise CaseTimeout()
            signal.signal(signal.SIGALRM, on_alarm)
            limit = float(getattr(module, "CASE_TIMEOUT", 60))
            for case in cases:
                ctx.case = case
                rng = case_rng(seed, prop, 0, case)
                signal.setitimer(signal.ITIMER_REAL, limit)
                try:
                    module.run_case(ctx, rng, case)
                except CaseTimeout:
                    ctx.count("watchdog_timeouts")
                    ctx.extra.setdefault("watchdog_cases", []).append(case)
                except Exception:
                    ctx.harness_errors.append({"case": case, "tb": traceback.format_exc()[-2500:]})
                finally:
                    signal.setitimer(signal.ITIMER_REAL, 0)
                ctx.count("evaluations")
    finally:
        if reach is not None:
            reach.stop()
            ctx.extra["reach"] = reach.dump()
        if hasattr(module, "teardown"):
            module.teardown(ctx)
    with open(outfile, "w") as f:
        json.dump(ctx.dump(), f, default=str)
    return 0


if __name__ == "__main__":
    sys.exit(main(sys.argv[1:]))
