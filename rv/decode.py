"""schema.props -> spec (for schemas that only exist as results of operations), normalisation,
and a structural fingerprint of real schemas."""
from .spec import ELL, mk


class DecodeError(Exception):
    pass


def _nil():
    from niltype import Nil
    return Nil


def _lenf(props):
    Nil = _nil()
    ln, mn, mx = props.get("len"), props.get("min_len"), props.get("max_len")
    if ln is not Nil:
        if mn is not Nil or mx is not Nil:
            raise DecodeError("len together with min_len/max_len")
        return ("eq", ln)
    if mn is not Nil and mx is not Nil:
        return ("range", mn, mx)
    if mn is not Nil:
        return ("min", mn)
    if mx is not Nil:
        return ("max", mx)
    return None


def decode(schema):
    """Read a real schema back into a spec (raises DecodeError on anything unexpected)."""
    from d42.declaration.types import (AnySchema, BoolSchema, BytesSchema, DateSchema, DateTimeSchema,
                                       DictSchema, FloatSchema, GenericTypeAliasSchema, IntSchema, ListSchema,
                                       NoneSchema, StrSchema, UUID4Schema)
    Nil = _nil()
    p = schema.props
    known = set(iter(p))

    def val(name):
        v = p.get(name)
        return None if v is Nil else v

    def only(*names):
        extra = known - set(names)
        if extra:
            raise DecodeError(f"unexpected props {sorted(extra)} on {type(schema).__name__}")

    t = type(schema)
    if hasattr(schema, "__rv_inner__"):
        s = decode(schema.__rv_inner__())
        s["wrap"] = s.get("wrap", 0) + 1
        return s
    if t is NoneSchema:
        only()
        return mk("none")
    for cls, k in ((BoolSchema, "bool"), (BytesSchema, "bytes"), (UUID4Schema, "uuid4"),
                   (DateTimeSchema, "datetime"), (DateSchema, "date")):
        if t is cls:
            only("value")
            return mk(k, value=val("value"))
    if t is IntSchema:
        only("value", "min", "max")
        return mk("int", value=val("value"), min=val("min"), max=val("max"))
    if t is FloatSchema:
        only("value", "min", "max", "precision")
        return mk("float", value=val("value"), min=val("min"), max=val("max"), precision=val("precision"))
    if t is StrSchema:
        only("value", "len", "min_len", "max_len", "alphabet", "substr", "pattern")
        return mk("str", value=val("value"), len=_lenf(p), alphabet=val("alphabet"), substr=val("substr"),
                  pattern=val("pattern"))
    if t is ListSchema:
        only("elements", "type", "len", "min_len", "max_len")
        s = mk("list", len=_lenf(p))
        if val("type") is not None and val("elements") is not None:
            raise DecodeError("list with both type and elements")
        if val("type") is not None:
            s["form"] = "typed"
            s["type"] = decode(p.get("type"))
        elif val("elements") is not None:
            s["form"] = "elems"
            els = p.get("elements")
            if not isinstance(els, list):
                raise DecodeError("elements is not a list")
            s["elems"] = [ELL if e is ... else decode(e) for e in els]
        else:
            s["form"] = "bare"
        return s
    if t is DictSchema:
        only("keys")
        keys = val("keys")
        if keys is None:
            s = mk("dict")
            s["keys"] = None
            return s
        entries = []
        relaxed = False
        pos = None
        for i, (key, pair) in enumerate(keys.items()):
            if key is ...:
                relaxed = True
                pos = len(entries)
                continue
            if not (isinstance(pair, tuple) and len(pair) == 2):
                raise DecodeError("dict entry is not a (schema, optional) pair")
            sub, opt = pair
            if not isinstance(opt, bool):
                raise DecodeError("optional flag is not a bool")
            entries.append((key, decode(sub), opt))
        s = mk("dict")
        s["keys"] = entries
        if relaxed:
            s["relaxed"] = True
            s["relaxed_pos"] = pos
        return s
    if t is AnySchema:
        only("types")
        types = val("types")
        s = mk("any")
        if types is not None:
            s["types"] = [decode(x) for x in types]
        return s
    if isinstance(schema, GenericTypeAliasSchema):
        only("name", "type")
        return mk("alias", name=val("name"), target=decode(p.type))
    raise DecodeError(f"unknown schema class {t!r}")


def normalise(spec):
    """Normal form of a DSL spec: what decode(build(spec)) must equal."""
    k = spec["k"]
    out = {"k": k}
    for f in ("value", "min", "max", "precision", "len", "alphabet", "substr", "pattern", "name"):
        if spec.get(f) is not None:
            out[f] = spec[f]
    if spec.get("wrap"):
        out["wrap"] = spec["wrap"]
    if k == "list":
        f = spec.get("form", "bare")
        out["form"] = f
        if f == "typed":
            out["type"] = normalise(spec["type"])
        elif f == "elems":
            out["elems"] = [ELL if e == ELL else normalise(e) for e in spec["elems"]]
    elif k == "dict":
        if spec.get("keys") is None:
            out["keys"] = None
        else:
            out["keys"] = [(key, normalise(sub), bool(opt)) for key, sub, opt in spec["keys"]]
            if spec.get("relaxed"):
                out["relaxed"] = True
                pos = spec.get("relaxed_pos")
                if pos is None or pos > len(spec["keys"]):
                    pos = len(spec["keys"])
                out["relaxed_pos"] = pos
    elif k == "any":
        if spec.get("types") is not None:
            flat = []
            for t in spec["types"]:
                n = normalise(t)
                if n["k"] == "any" and n.get("types") is not None and not n.get("wrap"):
                    flat.extend(n["types"])
                else:
                    flat.append(n)
            out["types"] = flat
    elif k == "alias":
        out["target"] = normalise(spec["target"])
    return out


def spec_eq(a, b):
    """Structural equality of normalised specs, type-strict on literals (1 != True != 1.0)."""
    if a == ELL or b == ELL:
        return a == b
    if set(a) != set(b):
        return False
    for f in a:
        x, y = a[f], b[f]
        if f in ("type", "target"):
            if not spec_eq(x, y):
                return False
        elif f == "elems" or f == "types":
            if (x is None) != (y is None):
                return False
            if x is not None:
                if len(x) != len(y) or not all(spec_eq(p, q) for p, q in zip(x, y)):
                    return False
        elif f == "keys":
            if (x is None) != (y is None):
                return False
            if x is not None:
                if len(x) != len(y):
                    return False
                for (k1, s1, o1), (k2, s2, o2) in zip(x, y):
                    if not lit_eq(k1, k2) or o1 != o2 or not spec_eq(s1, s2):
                        return False
        else:
            if not lit_eq(x, y):
                return False
    return True


def lit_eq(x, y):
    if type(x) is not type(y):
        return False
    if isinstance(x, float):
        return x == y or (x != x and y != y)
    if isinstance(x, (tuple, list)):
        return len(x) == len(y) and all(lit_eq(p, q) for p, q in zip(x, y))
    return x == y


def _fp_val(v):
    if isinstance(v, float):
        return ("float", v.hex() if v == v and abs(v) != float("inf") else repr(v))
    if isinstance(v, (tuple, list)):
        return (type(v).__name__, tuple(_fp_val(x) for x in v))
    return (type(v).__module__ + "." + type(v).__qualname__, repr(v))


def fingerprint(schema, _depth=0):
    """Canonical structural dump of a real schema: class names + props, recursively."""
    from d42.declaration.types import Schema
    if schema is ...:
        return "..."
    if not isinstance(schema, Schema):
        return ("?", _fp_val(schema))
    if _depth > 40:
        return "deep"
    p = schema.props
    items = []
    for name in sorted(iter(p)):
        items.append((name, _fp_prop(p.get(name), _depth)))
    return (type(schema).__qualname__, type(p).__qualname__, tuple(items))


def _fp_prop(v, d):
    from d42.declaration.types import Schema
    from niltype import Nil
    if v is Nil:
        return "Nil"
    if v is ...:
        return "..."
    if isinstance(v, Schema):
        return fingerprint(v, d + 1)
    if isinstance(v, list):
        return ("list", tuple(_fp_prop(x, d + 1) for x in v))
    if isinstance(v, tuple):
        return ("tuple", tuple(_fp_prop(x, d + 1) for x in v))
    if isinstance(v, dict):
        # key order is not part of a schema's meaning (dict == ignores it; the text may print ...: ... elsewhere)
        return ("dict", tuple(sorted(((_fp_key(k), _fp_prop(x, d + 1)) for k, x in v.items()), key=repr)))
    return _fp_val(v)


def _fp_key(k):
    if k is ...:
        return "..."
    return _fp_val(k)


def inherit_examples(rspec, spec):
    """decode() cannot know the harness-side examples of a pattern: copy them from the original spec
    onto decoded nodes that carry the same pattern (needed for constructive witnesses of results)."""
    from .spec import walk
    table = {}
    for _, n in walk(spec):
        if n["k"] == "str" and n.get("pattern") is not None and n.get("examples"):
            table.setdefault(n["pattern"], n["examples"])
    for _, n in walk(rspec):
        if n["k"] == "str" and n.get("pattern") is not None and not n.get("examples"):
            if n["pattern"] in table:
                n["examples"] = table[n["pattern"]]
    return rspec
