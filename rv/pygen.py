"""Generator of Python *modules* for the migration rewriter (C19)."""

UNMAPPED_MODULES = ["os", "typing", "collections.abc", "district42.unknown", "valera.extra", "mypkg.schemas", "d42"]
UNMAPPED_NAMES = ["path", "Any", "Mapping", "helper", "zzz", "Thing", "schema_v1"]
ODD_CHARS = ["\x0c", "\x1c", "\x1d", "\x1e", "\x85", "\u2028", "\u2029", "\x0b"]


def mapping():
    from d42.migration.migrate_v1_to_v2 import mapping as m
    return m


class Builder:
    def __init__(self, rng, mapping_):
        self.rng = rng
        self.map = mapping_
        self.mods = sorted(mapping_)
        self.n = 0
        self.features = set()

    def uniq(self, base="v"):
        self.n += 1
        return f"{base}{self.n}"

    # ---- import statements (single logical statement, possibly several physical lines) -----------
    def names(self, module, k=None):
        rng = self.rng
        k = k or rng.choice((1, 1, 2, 3, 4))
        out = []
        mapped = sorted(self.map.get(module, {}))
        for _ in range(k):
            if mapped and rng.random() < 0.7:
                n = rng.choice(mapped)
                self.features.add("mapped_name")
            else:
                n = rng.choice(UNMAPPED_NAMES)
                self.features.add("unmapped_name")
            if rng.random() < 0.3:
                out.append(f"{n} as {self.uniq('al')}")
                self.features.add("alias")
            else:
                out.append(n)
        return out

    def from_import(self, indent=""):
        rng = self.rng
        r = rng.random()
        if r < 0.75:
            module = rng.choice(self.mods)
        else:
            module = rng.choice(UNMAPPED_MODULES)
            self.features.add("unmapped_module")
        if rng.random() < 0.06:
            self.features.add("star")
            return f"{indent}from {module} import *"
        names = self.names(module)
        if len(set(n.split(" as ")[-1] for n in names)) < len(names) and rng.random() < 0.5:
            self.features.add("same_name_twice")
        form = rng.random()
        if form < 0.55:
            tail = ""
            if rng.random() < 0.15:
                self.features.add("trailing_comment")
                tail = rng.choice(("  # noqa", " # from valera import validate", "  # a; b"))
            return f"{indent}from {module} import {', '.join(names)}{tail}"
        if form < 0.8:
            self.features.add("parenthesised")
            style = rng.random()
            if style < 0.5:
                body = ",\n".join(f"{indent}    {n}" for n in names)
                trail = "," if rng.random() < 0.5 else ""
                return f"{indent}from {module} import (\n{body}{trail}\n{indent})"
            if style < 0.75:
                return f"{indent}from {module} import ({', '.join(names)})"
            body = "\n".join(f"{indent}    {n},  # c{j}" for j, n in enumerate(names))
            return f"{indent}from {module} import (  # why\n{body}\n{indent})"
        self.features.add("backslash")
        if len(names) == 1:
            return f"{indent}from {module} \\\n{indent}    import {names[0]}"
        return f"{indent}from {module} import {names[0]}, \\\n{indent}    {', '.join(names[1:])}"

    def other_import(self):
        rng = self.rng
        r = rng.random()
        if r < 0.3:
            self.features.add("relative_import")
            return rng.choice(("from . import schema", "from .district42 import schema as s1",
                               "from ..valera import validate", "from .. import revolt as rv1"))
        if r < 0.6:
            self.features.add("plain_import")
            return rng.choice(("import os", "import district42", "import valera.errors as ve", "import sys, revolt",
                               "import blahblah as bb"))
        return "import json"

    # ---- other statements ---------------------------------------------------------------------
    def simple(self):
        rng = self.rng
        r = rng.random()
        v = self.uniq()
        if r < 0.3:
            return f"{v} = {rng.randint(0, 99)}"
        if r < 0.45:
            return f"{v} = 'from district42 import schema'"
        if r < 0.55:
            return f"print({v!r})"
        if r < 0.65:
            self.features.add("non_ascii_identifier")
            return f"переменная_{self.n} = 'значение'"
        if r < 0.75:
            return f"{v}: int = {rng.randint(0, 9)}"
        if r < 0.85:
            return "pass"
        return f"{v} = [x for x in range({rng.randint(1, 5)})]"

    def compound(self):
        rng = self.rng
        r = rng.random()
        nested = self.from_import("    ") if rng.random() < 0.6 else "    pass"
        if "import" in nested:
            self.features.add("nested_import")
        if r < 0.2:
            return f"def {self.uniq('f')}(a, b=1):\n{nested}\n    return a"
        if r < 0.35:
            return f"class {self.uniq('C')}:\n    x = 1\n{nested}"
        if r < 0.5:
            return f"if True:\n{nested}\nelse:\n    pass"
        if r < 0.65:
            return f"try:\n{nested}\nexcept ImportError:\n    {self.uniq()} = None"
        if r < 0.75:
            return f"@staticmethod\ndef {self.uniq('g')}():\n    '''from valera import validate'''\n{nested}"
        if r < 0.85:
            self.features.add("multiline_string")
            odd = rng.choice(ODD_CHARS) if rng.random() < 0.4 else ""
            if odd:
                self.features.add("odd_linebreak_char_in_string")
            return (f'{self.uniq()} = """\nfrom district42 import schema{odd}\nfrom valera import (\n    validate\n)\n"""')
        if r < 0.93:
            return f"for {self.uniq('i')} in range(2):\n{nested}"
        return f"with open('x') as {self.uniq('fh')}:\n{nested}"

    def comment(self):
        rng = self.rng
        odd = rng.choice(ODD_CHARS) if rng.random() < 0.25 else ""
        if odd:
            self.features.add("odd_linebreak_char_in_comment")
        return rng.choice((f"# from district42 import schema{odd}", f"# comment {odd}", "#", "#!x"))

    def same_line(self):
        """Several statements on one physical line, at least one of them a top-level from-import."""
        line = self._same_line()
        if self.rng.random() < 0.3 and "#" not in line.split("\n")[-1]:
            self.features.add("trailing_comment")
            line += self.rng.choice(("  # trailing comment", " # x; y", "  #"))
        return line

    def _same_line(self):
        rng = self.rng
        imp = self.from_import()
        r = rng.random()
        self.features.add("shared_line")
        if r < 0.3:
            return f"{self.simple()}; {imp}" if "\n" not in imp else f"{imp}; {self.simple()}"
        if r < 0.6:
            return f"{imp}; {self.simple()}"
        if r < 0.8:
            imp2 = self.from_import()
            if "\n" in imp2:
                return f"{imp}; {self.simple()}"
            first = imp if "\n" not in imp else self.simple()
            return f"{first}; {imp2}"
        return f"{self.simple()}; {imp}; {self.simple()}" if "\n" not in imp else f"{imp}; {self.simple()}"


def gen_module(rng, mapping_, force_name=None):
    """-> (source text, feature set)"""
    b = Builder(rng, mapping_)
    chunks = []
    if rng.random() < 0.03:
        return "", {"empty_module"}
    if rng.random() < 0.15:
        chunks.append('"""module docstring\nfrom district42 import schema\n"""')
        b.features.add("docstring")
    if rng.random() < 0.12:
        chunks.append("from __future__ import annotations")
        b.features.add("future_import")
    if force_name is not None:
        module, name = force_name
        alias = f" as {b.uniq('al')}" if rng.random() < 0.3 else ""
        chunks.append(f"from {module} import {name}{alias}")
        b.features.add("mapped_name")
    n = rng.choice((1, 2, 3, 4, 6, 9))
    for _ in range(n):
        r = rng.random()
        if r < 0.34:
            chunks.append(b.from_import())
        elif r < 0.44:
            chunks.append(b.same_line())
        elif r < 0.52:
            chunks.append(b.other_import())
        elif r < 0.7:
            chunks.append(b.simple())
        elif r < 0.88:
            chunks.append(b.compound())
        elif r < 0.96:
            chunks.append(b.comment())
        else:
            chunks.append("")
    if rng.random() < 0.1:
        b.features.add("tabs")
        chunks.append("if 1:\n\tx_tab = 1\n\tfrom valera import validate as v_tab")
    # line endings
    r = rng.random()
    if r < 0.8:
        eol = "\n"
    elif r < 0.92:
        eol = "\r\n"
        b.features.add("crlf")
    else:
        eol = "\r"
        b.features.add("lone_cr")
    text = "\n".join(chunks)
    if eol != "\n":
        text = text.replace("\n", eol)
    if rng.random() < 0.8:
        text += eol
    else:
        b.features.add("no_trailing_newline")
    return text, b.features
