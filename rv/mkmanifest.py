"""Writes /verif/MANIFEST.json from the table below (python3 -m rv.mkmanifest)."""
import json
import os

VERIF = os.path.dirname(os.path.dirname(os.path.abspath(__file__)))

BASELINE_OFF = ("cd /repo && env -u D42_VERIF /venv/bin/python -m pytest -ra -q -p no:cacheprovider --timeout=900 "
                "--continue-on-collection-errors")

COMMON_NOTE = ("Trusted base: CPython 3.12 in /venv, the harness's own reference semantics / generators (rv/ref.py, "
               "rv/gen_*.py), th/niltype. Decides only the executions it produced; 'held' = held on N observed "
               "executions with the reach tables in the evidence file.")

CHECKS = {
    "C01": dict(
        technique="runtime monitoring: adversarial-RNG schedule exploration + validate() as online oracle on every generated value",
        text="Exploration: random satisfiable specs (satisfiability decided constructively) generated from under an adversarial RNG "
             "(all-lo/all-hi/mid/seeded/scripted per-draw extremes; exhaustive {lo,hi}^n for small n in thorough) and through the "
             "real d42.fake; every value is fed to the real validate. Right level: the property quantifies over RNG outcomes, which "
             "only execution under a controlled RNG can reach.",
        ref="DESIGN.md 3/C01, 2.3, 2.5"),
    "C02": dict(
        technique="runtime monitoring: independent reference acceptor evaluated next to validate() on witnesses, one-step perturbations and zoo values",
        text="Exploration with an executable reference model: ~10^5 (quick) to 10^7 (thorough) (schema, value) pairs, verdicts compared "
             "with rv/ref.py over the *spec* (what was declared), plus schema==value <=> validates.",
        ref="DESIGN.md 3/C02, 2.2"),
    "C03": dict(
        technique="runtime monitoring: per-error truth predicates + path-prefix post-condition probe on every Validator.visit_*",
        text="Exploration: every error of every rejected pair is checked (path reaches the reported sub-value, stated fact true, quoted "
             "parameter declared there, message names the path); a class-level probe on every visit_* asserts returned error paths extend "
             "the path passed in (no sibling leaks), at every depth, also during substitution.",
        ref="DESIGN.md 3/C03, 2.4"),
    "C04": dict(
        technique="runtime monitoring: substitution results observed through validate/fake under adversarial RNG; carries() oracle + perturbation rejection",
        text="Exploration over (schema, plain value) pairs incl. partial dicts at any depth; result must accept conforming v, generate only "
             "values carrying v under all RNG schedules, reject one-step perturbations at pinned positions, and keep unmentioned keys.",
        ref="DESIGN.md 3/C04"),
    "C05": dict(
        technique="runtime monitoring: differential validate(S%v, w) => validate(S, w) over generated/perturbed w, cross-checked by the reference acceptor",
        text="Exploration: for every successful substitution, values accepted by the result (generated, witnesses of the decoded result, "
             "perturbations aimed at each constraint of S) must be accepted by the original.",
        ref="DESIGN.md 3/C05"),
    "C06": dict(
        technique="runtime monitoring: eval(repr(schema)) round-trip with structural fingerprint + free-name audit of the text; cross-process determinism",
        text="Exploration over DSL-built schemas: text is evaluated with only schema/optional/UUID/datetime in scope; rebuilt schema must be "
             "==, fingerprint-equal and print identically; thorough compares text across PYTHONHASHSEED values.",
        ref="DESIGN.md 3/C06"),
    "C07": dict(
        technique="runtime monitoring: operation-history monitor over a shared pool; fingerprints/verdict vectors of every pooled schema re-checked at each quiescent point",
        text="Exploration over random histories of all public operations (success and raise paths); after every step every pooled schema, "
             "every argument value and every visitor singleton must be unchanged; caller-owned containers are mutated afterwards.",
        ref="DESIGN.md 3/C07"),
    "C08": dict(
        technique="runtime monitoring: hostile-value zoo alone and injected at every position; exception-freedom + error/exception arithmetic oracle",
        text="Exploration: ~10^5 (quick) validate/format/format_result/validate_or_fail calls on hostile stdlib values and opaque objects; "
             "no semantic judgement needed, so no reference model and no unjudged zone.",
        ref="DESIGN.md 3/C08"),
    "C09": dict(
        technique="runtime monitoring: generated regex programs under adversarial RNG; re.fullmatch as oracle; refusal accounting for unsupported constructs",
        text="Exploration over regex programs from a grammar (supported constructs; unsupported constructs embedded at any position), each "
             "under extreme/scripted RNG schedules and three max_repeat settings; CPython's re.fullmatch decides.",
        ref="DESIGN.md 3/C09"),
    "C10": dict(
        technique="runtime monitoring: enumerated declaration call chains; exception-type, receiver-unchanged, self-conformance and re-declaration oracles",
        text="Enumeration of call chains (all chains of length<=2 over the argument universes, seeded sample of lengths 3-4 in quick; length<=3 "
             "exhaustive in thorough) on every type; each call observed for exception class, receiver fingerprint, and carried value conformance.",
        ref="DESIGN.md 3/C10"),
    "C11": dict(
        technique="runtime monitoring: exhaustive permutation-differential over refinement sets",
        text="Exhaustive enumeration of sets of <=3 distinct refinements x parameter universe x all permutations; outcome classes and resulting "
             "schemas (== and fingerprint) must agree across permutations.",
        ref="DESIGN.md 3/C11"),
    "C12": dict(
        technique="runtime monitoring: substitute() on conforming/perturbed/partial/unconvertible values; exception-class, usability and idempotence oracles",
        text="Exploration: any value in, only SubstitutionError out; results must be satisfiable and generatable (C01 oracle under adversarial RNG); "
             "re-substituting the same plain value is a fixed point (== and fingerprint).",
        ref="DESIGN.md 3/C12"),
    "C13": dict(
        technique="runtime monitoring: reference acceptor on the harness's own model of each combinator vs validate() on the combined schema",
        text="Exploration over operand specs and values: |, schema.any, +, make_required, alias, indexing and iteration compared with a spec "
             "computed by the harness's model of the combinator.",
        ref="DESIGN.md 3/C13"),
    "C14": dict(
        technique="runtime monitoring: from_native accept/generate/reject-every-neighbour oracle; ValueError accounting for non-plain values",
        text="Exploration over nested plain values and all one-step perturbations; non-plain values alone and nested must be refused with ValueError.",
        ref="DESIGN.md 3/C14"),
    "C15": dict(
        technique="runtime monitoring: algebraic-law monitor on pools of schemas, rebuilds and single-parameter variants with distinguishing witnesses",
        text="Exploration: reflexivity, symmetry, transitivity, rebuild equality, != negation, equal => same verdicts, variant-with-witness => unequal, "
             "schema==value <=> validates.",
        ref="DESIGN.md 3/C15"),
    "C16": dict(
        technique="runtime monitoring: differential wrapped-vs-plain execution with a forwarding CustomSchema defined in the harness",
        text="Exploration over spec trees x subsets of nodes wrapped in a forwarding custom type: validation errors+paths, repr, generation and "
             "substitution outcomes must coincide with the unwrapped tree.",
        ref="DESIGN.md 3/C16"),
    "C17": dict(
        technique="runtime monitoring: cross-configuration differential (fresh interpreters with different PYTHONHASHSEED, repeated in-process passes)",
        text="Exploration: seeded fake() sequences are executed twice in-process and in child interpreters with different hash seeds; "
             "encodings must be identical position by position.",
        ref="DESIGN.md 3/C17"),
    "C18": dict(
        technique="runtime monitoring: inverse-function oracle (harness flatten, real rollout) over generated and exhaustively enumerated trees x key orders",
        text="Exploration + bounded exhaustive part: rollout(flatten(N)) == N with leaf identity, optional placement, input not mutated, "
             "for generated trees, separators and key orders; small trees x all permutations enumerated.",
        ref="DESIGN.md 3/C18"),
    "C19": dict(
        technique="runtime monitoring: AST-level oracle on rewrite_imports over generated modules; exhaustive import of every mapping target",
        text="Part A exhaustive (every mapping target imported). Part B exploration over generated Python modules: output parses, "
             "non-import statements preserved in order, import bindings map exactly.",
        ref="DESIGN.md 3/C19"),
}


def built():
    return sorted(f[:-3] for f in os.listdir(os.path.join(VERIF, "rv", "props"))
                  if f.startswith("C") and f.endswith(".py"))


def main():
    have = built()
    checks = []
    for pid in sorted(CHECKS):
        if pid not in have:
            continue
        c = CHECKS[pid]
        checks.append({
            "property_id": pid,
            "quick_cmd": f"./check {pid} --tier quick",
            "thorough_cmd": f"./check {pid} --tier thorough",
            "evidence_file": f"/verif/evidence/{pid}.json",
            "replay_cmd_template": f"./check {pid} --replay {{path}}",
            "engine": "rv",
            "level_claimed": {"category": "exploration", "text": c["text"], "design_ref": c["ref"]},
            "level_note": COMMON_NOTE,
            "technique": c["technique"],
        })
    na = [{"property_id": pid, "reason": "monitor designed (DESIGN.md section 3) but not yet built in this commit; not claimed"}
          for pid in sorted(CHECKS) if pid not in have]
    man = {
        "version": 1,
        "setup_cmd": "./setup.sh",
        "hooks": {
            "guard": "D42_VERIF",
            "enable": "none required: monitors are installed from the harness by class-level wrapping of the real classes; "
                      "workers run with PYTHONPATH=/repo so the current working tree is what is observed",
            "baseline_off_cmd": BASELINE_OFF,
            "source_commits": [],
            "add_only": True,
        },
        "engines": [{"name": "rv", "path": "/verif/rv", "serves_properties": have,
                     "kind_free_text": "pure-Python runtime-monitoring framework: spec generators, reference semantics, adversarial RNG, "
                                       "class-level probes, sharded subprocess workers"}],
        "checks": checks,
        "notes": "Known findings: /verif/known_findings.json (open entries print KNOWN-FINDING and exit 0; fixed entries suppress nothing). "
                 "Exit codes: 0 held on observed, 1 violation, 2 inconclusive (deciding monitor not reached / worker died).",
        "not_applicable": na,
    }
    with open(os.path.join(VERIF, "MANIFEST.json"), "w") as f:
        json.dump(man, f, indent=1)
    print(f"MANIFEST.json: {len(checks)} checks, {len(na)} not yet claimed")


if __name__ == "__main__":
    main()
