"""Shared helpers: locating the repo, importing the *real* d42 modules, JSON-safe encoding."""
import datetime as _dt
import hashlib
import importlib
import json
import math
import os
import random
import sys
import types
import uuid as _uuid

VERIF = os.path.dirname(os.path.dirname(os.path.abspath(__file__)))
REPO = os.environ.get("D42_REPO", "/repo")


def bootstrap():
    """Make sure `import d42` resolves to REPO's working tree and return the package."""
    if REPO not in sys.path[:1]:
        sys.path.insert(0, REPO)
    import d42
    f = os.path.realpath(d42.__file__)
    if not f.startswith(os.path.realpath(REPO) + os.sep):
        raise RuntimeError(f"d42 imported from {f}, expected under {REPO}")
    return d42


def mod(name):
    """Return the real *module* object (package __init__s shadow several submodule names)."""
    m = importlib.import_module(name)
    m = sys.modules[name]
    if not isinstance(m, types.ModuleType):
        raise RuntimeError(f"{name} did not resolve to a module")
    return m


def case_rng(seed, prop, shard, case, salt=""):
    return random.Random(f"{seed}|{prop}|{shard}|{case}|{salt}")


def h(obj):
    """Stable short hash of a JSON-able object."""
    return hashlib.sha1(json.dumps(obj, sort_keys=True, default=str).encode()).hexdigest()[:16]


class Zoo:
    """Marker wrapper so zoo members are named in samples."""


def enc(v, depth=0):
    """Tagged, JSON-safe, deterministic rendering of arbitrary Python values (for samples/replays)."""
    if depth > 12:
        return {"$": "deep"}
    t = type(v)
    if v is None or t is bool:
        return v
    if t is int:
        return v if abs(v) < 2 ** 53 else {"$int": str(v)}
    if t is float:
        if math.isnan(v) or math.isinf(v):
            return {"$float": repr(v)}
        return {"$float": v.hex(), "r": repr(v)}
    if t is str:
        return v if len(v) <= 200 else {"$str": v[:80] + "...", "len": len(v)}
    if t is bytes:
        return {"$bytes": v.hex() if len(v) <= 100 else v[:40].hex() + "...", "len": len(v)}
    if t is list:
        if len(v) > 50:
            return {"$list": [enc(x, depth + 1) for x in v[:10]], "len": len(v)}
        return [enc(x, depth + 1) for x in v]
    if t is tuple:
        return {"$tuple": [enc(x, depth + 1) for x in v]}
    if t is dict:
        try:
            return {"$dict": [[enc(k, depth + 1), enc(x, depth + 1)] for k, x in list(v.items())[:50]]}
        except Exception:
            return {"$dict": "unprintable"}
    if t is _uuid.UUID:
        return {"$uuid": str(v)}
    if t is _dt.datetime:
        return {"$datetime": v.isoformat()}
    if t is _dt.date:
        return {"$date": v.isoformat()}
    if v is Ellipsis:
        return {"$": "..."}
    try:
        r = repr(v)
    except Exception as e:  # pragma: no cover
        r = f"<unreprable {type(e).__name__}>"
    if len(r) > 200:
        r = r[:200] + "..."
    return {"$obj": f"{t.__module__}.{t.__qualname__}", "r": r}


def abstract_int(n):
    if isinstance(n, bool):
        return "bool"
    if n == 0:
        return "0"
    a = abs(n)
    s = "-" if n < 0 else "+"
    if a <= 2:
        return s + str(a)
    if a < 100:
        return s + "small"
    if a < 2 ** 31:
        return s + "mid"
    if a < 2 ** 63:
        return s + "big"
    return s + "huge"


def abstract_float(x):
    if x != x:
        return "nan"
    if math.isinf(x):
        return "inf" if x > 0 else "-inf"
    if x == 0:
        return "0.0"
    a = abs(x)
    s = "-" if x < 0 else "+"
    if a < 1:
        return s + "frac"
    if a < 1e6:
        return s + "mid"
    if a < 9.3e18:
        return s + "big"
    return s + "huge"


def repo_state():
    import subprocess
    try:
        head = subprocess.run(["git", "-C", REPO, "rev-parse", "HEAD"], capture_output=True,
                              text=True, timeout=20).stdout.strip()
        dirty = bool(subprocess.run(["git", "-C", REPO, "status", "--porcelain", "--untracked-files=no"],
                                    capture_output=True, text=True, timeout=20).stdout.strip())
    except Exception:
        head, dirty = "unknown", True
    return head, dirty
