"""The harness's own model of the combinators (C13, also used to derive schemas in C01/C06)."""
import copy

from .spec import mk


def union_spec(*specs):
    return mk("any", types=[copy.deepcopy(s) for s in specs])


def merge_spec(d1, d2):
    """d1 + d2 for *declared* dict specs: d1's key table updated by d2's; relaxed if either is."""
    assert d1["k"] == "dict" and d2["k"] == "dict"
    k1 = d1.get("keys") or []
    k2 = d2.get("keys") or []
    table = []
    for key, sub, opt in k1:
        table.append([key, sub, opt])
    for key, sub, opt in k2:
        for row in table:
            if _same(row[0], key):
                # dict-update semantics: the *old* key object stays, the value is replaced
                row[1], row[2] = sub, opt
                break
        else:
            table.append([key, sub, opt])
    out = mk("dict")
    out["keys"] = [tuple(r) for r in table]
    if d1.get("relaxed") or d2.get("relaxed"):
        out["relaxed"] = True
    return out


def _same(a, b):
    try:
        return a in {b: 0}
    except TypeError:
        return False


def required_spec(d, keys):
    """make_required(d, keys): listed keys (None = all) lose their optional flag."""
    out = mk("dict")
    if d.get("keys") is None:
        out["keys"] = None
        return out
    new = []
    for key, sub, opt in d["keys"]:
        if keys is None or any(_same(key, k) for k in keys):
            opt = False
        new.append((key, sub, opt))
    out["keys"] = new
    if d.get("relaxed"):
        out["relaxed"] = True
        out["relaxed_pos"] = d.get("relaxed_pos")
    return out
