"""C11 - constraint refinements can be declared in any order (exhaustive permutation differential)."""
import itertools

from ..common import enc
from ..decode import fingerprint

LEVEL = "exploration"
EXHAUSTIVE = True
RULE = ("finite space, enumerated completely: for int {min,max}, float {min,max,precision}, str {one len form, alphabet, contains, "
        "regex}, list {one len form after elements/type}: every set of <=3 distinct refinements x parameter universe (quick: 3-4 "
        "values per parameter, thorough: 5-6) x optional fixed value first x ALL permutations; outcomes (DeclarationError vs schema, "
        "== and structural fingerprint of results) must agree across the permutations of a set. A case = one (type, value, set); "
        "distinct by construction; non-trivial = >=2 refinements (>=2 permutations).")
ASSUMPTIONS = ["the parameter universes below are the 'small boundary universe' of the property"]
REACH_FILES = ['d42/declaration/types/_str_schema.py', 'd42/declaration/types/_int_schema.py', 'd42/declaration/types/_float_schema.py', 'd42/declaration/types/_list_schema.py']
TIERS = {"quick": dict(shards=16, universe="large"), "thorough": dict(shards=16, universe="xlarge")}


def universes(size):
    big = size in ("large", "xlarge")
    xl = size == "xlarge"
    ints = [-1, 0, 1, 5] + ([2 ** 63, -7] if big else []) + ([3, 2, -(2 ** 63) - 1, True] if xl else [])
    floats = [-1.0, 0.0, 0.5, 2.5] + ([1e19, -0.29, float("inf"), 1e308] if big else []) + ([1.0, 0.49, -0.0, float("-inf")] if xl else [])
    U = {}
    U["int"] = {
        "values": [None, 0, 3] + ([True, -1] if big else []),
        "refs": {"min": [("min", (v,)) for v in ints], "max": [("max", (v,)) for v in ints]},
    }
    U["float"] = {
        "values": [None, 0.5, 1.0] + ([-0.29] if big else []),
        "refs": {"min": [("min", (v,)) for v in floats], "max": [("max", (v,)) for v in floats],
                 "precision": [("precision", (p,)) for p in ([1, 2] + ([15, 0, 16] if big else []))]},
    }
    lens = [("len", (0,)), ("len", (2,)), ("len", (3,)), ("len", (0, ...)), ("len", (2, ...)), ("len", (..., 2)),
            ("len", (..., 5)), ("len", (1, 3)), ("len", (2, 2))]
    if big:
        lens += [("len", (-1,)), ("len", (3, 1)), ("len", (..., 0)), ("len", (5, ...)), ("len", (..., ...))]
    if xl:
        lens += [("len", (1,)), ("len", (1, ...)), ("len", (..., 3)), ("len", (0, 0)), ("len", (3, 3)), ("len", (True,)),
                 ("len", (..., 1)), ("len", (3, ...)), ("len", (0, 2))]
    U["str"] = {
        "values": [None, "ab", "abc", ""] + (["zab"] if big else []),
        "refs": {"len": lens,
                 "alphabet": [("alphabet", (a,)) for a in (["ab", "abc", "", "ab{}%"] + (["z", "ba"] if big else []))],
                 "contains": [("contains", (c,)) for c in (["a", "ab", "z"] + (["", "abc"] if big else []))],
                 "regex": [("regex", (r,)) for r in (["a+", "^ab$", "z", "^a{1}b{1,2}$"] + (["", "^a.c$", "(" ] if big else []))]},
    }
    # a min-only and a max-only form are two different refinements of the same method: both orders must be rejected alike
    U["str"]["refs"]["len_second_form"] = [("len", (1, ...)), ("len", (..., 3)), ("len", (2,))]
    U["list"] = {
        "values": [None, "typed", "exact2", "head1", "tail1", "contains1", "empty", "ell"],
        "refs": {"len": [x for x in lens]},
    }
    return U


def start(kind, value):
    from d42 import schema
    if kind == "list":
        s = schema.list
        if value is None:
            return s
        return s({"typed": schema.int, "exact2": [schema.int, schema.str], "head1": [schema.int, ...],
                  "tail1": [..., schema.int], "contains1": [..., schema.int, ...], "empty": [], "ell": [...]}[value])
    s = getattr(schema, kind)
    if value is None:
        return s
    return s(value)


def apply(s, chain):
    """-> ("ok", schema) | ("declaration_error", msg) | ("other_exception", exc)"""
    from d42.declaration import DeclarationError
    try:
        for meth, args in chain:
            s = getattr(s, meth)(*args)
        return "ok", s
    except DeclarationError as e:
        return "declaration_error", str(e)[:120]
    except Exception as e:  # noqa
        return "other_exception", e


def enumerate_sets(U):
    for kind, u in U.items():
        names = sorted(u["refs"])
        for value in u["values"]:
            for r in (1, 2, 3):
                for combo in itertools.combinations(names, r):
                    for params in itertools.product(*[u["refs"][n] for n in combo]):
                        yield kind, value, params


def run_shard(ctx):
    U = universes(ctx.params["universe"])
    for idx, (kind, value, refs) in enumerate(enumerate_sets(U)):
        if idx % ctx.nshards != ctx.shard:
            continue
        if ctx.only is not None and idx != ctx.only:
            continue
        ctx.case = idx
        ctx.count("evaluations")
        try:
            base = start(kind, value)
        except Exception:
            ctx.count("value_not_declarable")
            continue
        ctx.distinct([kind, enc(value), [[m, [enc(a) for a in args]] for m, args in refs]], len(refs) >= 2)
        outcomes = []
        for perm in itertools.permutations(refs):
            ctx.count("permutations_run")
            st, res = apply(base, perm)
            if st == "other_exception":
                ctx.violation(f"non_declaration_error:{type(res).__name__}", {
                    "type": kind, "value": enc(value), "chain": [[m, [enc(a) for a in args]] for m, args in perm],
                    "exc": f"{type(res).__name__}: {str(res)[:150]}"})
            outcomes.append((perm, st, res))
        if idx % 2000 == 0:
            ctx.sample({"type": kind, "value": enc(value), "set": [[m, [enc(a) for a in args]] for m, args in refs],
                        "outcomes": [st for _, st, _ in outcomes]})
        sts = {st for _, st, _ in outcomes if st != "other_exception"}
        names = "+".join(sorted(m for m, _ in refs))
        ctx.table("outcome_classes", f"{kind}|{names}|{'/'.join(sorted(sts))}")
        if len(sts) > 1:
            okp = next(p for p, st, _ in outcomes if st == "ok")
            erp, msg = next((p, r) for p, st, r in outcomes if st == "declaration_error")
            ctx.violation("order_dependent_outcome", {
                "type": kind, "value": enc(value),
                "accepted_order": [[m, [enc(a) for a in args]] for m, args in okp],
                "rejected_order": [[m, [enc(a) for a in args]] for m, args in erp], "message": msg,
                "methods": sorted(m for m, _ in refs),
                "len_form": next((("max_only" if a[0] is ... else "other") for m, a in refs if m == "len"), None)})
        elif sts == {"ok"}:
            ctx.count("all_accept_sets")
            first = outcomes[0][2]
            fp = fingerprint(first)
            for perm, st, res in outcomes[1:]:
                ctx.count("schema_comparisons")
                try:
                    eq = (first == res) and (res == first) and not (first != res)
                except Exception as e:
                    ctx.violation("eq_raised", {"type": kind, "exc": repr(e)[:200]})
                    continue
                if not eq or fingerprint(res) != fp or repr(first) != repr(res):
                    ctx.violation("order_dependent_schema", {
                        "type": kind, "value": enc(value),
                        "order_a": [[m, [enc(a) for a in args]] for m, args in outcomes[0][0]],
                        "order_b": [[m, [enc(a) for a in args]] for m, args in perm],
                        "repr_a": repr(first)[:200], "repr_b": repr(res)[:200], "eq": bool(eq)})
        else:
            ctx.count("all_reject_sets")


def required(m, tier):
    c = m["counters"]
    out = []
    if c.get("permutations_run", 0) == 0:
        out.append("no permutation was run")
    if c.get("all_accept_sets", 0) == 0 or c.get("all_reject_sets", 0) == 0:
        out.append("one outcome class never observed")
    return out
