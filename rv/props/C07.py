"""C07 - schemas are immutable values and all operations on them are pure (history monitor)."""
import copy
import weakref

from .. import decode as dec
from .. import oracles as O
from ..common import case_rng, enc, mod
from ..gen_spec import Profile, gen_spec
from ..gen_value import Unsat, perturbations, witness

LEVEL = "exploration"
RULE = ("histories = random interleavings of public operations over a shared pool of ~40 schemas and values: every refinement call with "
        "valid, contradictory and wrongly-typed arguments (success and raise paths), declaration from caller-owned lists/dicts, +, |, %, "
        "fake/~, validate, validate_or_fail, repr/represent, ==/!=, make_required, d[key], iteration, from_native, rollout, custom "
        "(forwarding) schemas. After every operation (the quiescent point): operands and a random part of the pool, and every 20 ops "
        "the whole pool, are compared with their baseline (repr, structural fingerprint, error-class vector on a fixed probe set); "
        "argument values are compared with deep copies taken before the call (success and raise paths); caller-owned containers are "
        "mutated after the call; earlier operations are re-executed on equal inputs and must give equal results; the six module-level "
        "visitor singletons must stay stateless; a hook on Props asserts on every access that the registry it was created with has not "
        "been mutated in place. Distinct by hash of the op-kind sequence; non-trivial = >=1 operation that takes a container or refines.")
ASSUMPTIONS = ["generation (fake) is excluded from the determinism re-execution (it draws from the global RNG by design)",
               "Props registries are compared by a shallow identity fingerprint on every access and structurally at quiescent points"]
REACH_FILES = ['d42/declaration/_props.py', 'd42/declaration/types/_list_schema.py', 'd42/declaration/types/_dict_schema.py', 'd42/declaration/types/_any_schema.py', 'd42/utils/_make_required.py']
TIERS = {"quick": dict(shards=16, cases=96, ops=250), "thorough": dict(shards=16, cases=1600, ops=600)}
CASE_TIMEOUT = 600

PROF = Profile(max_depth=2, p_unsat=0.03, p_empty_alphabet=0.0)
GENERIC = [None, 0, 1, "a", "", [], {}, [1], {"a": 1}, 1.5, True, b"x"]


# ------------------------------------------------------------------------------------------------
# Props hook: invariant on every access

def shallow_fp(reg):
    out = []
    for k, v in reg.items():
        if isinstance(v, list):
            out.append((k, id(v), tuple(map(id, v))))
        elif isinstance(v, dict):
            out.append((k, id(v), tuple((id(a), id(b)) for a, b in v.items())))
        elif isinstance(v, tuple):
            out.append((k, id(v), tuple(map(id, v))))
        else:
            out.append((k, id(v)))
    return tuple(out)


def install_props_hook(ctx):
    P = mod("d42.declaration._props").Props
    orig_init = P.__init__
    orig_get = P.get
    installed = [(P, "__init__", orig_init), (P, "get", orig_get)]

    def init(self, registry=None, *a, **kw):
        from niltype import Nil
        if registry is None:
            registry = Nil
        orig_init(self, registry, *a, **kw)
        # the baseline is taken at the first access, not here: a constructor / factory may still fill the registry

    def get(self, name, *a, **kw):
        fp = self.__dict__.get("_rv_fp")
        if fp is None:
            try:
                self.__dict__["_rv_fp"] = shallow_fp(self._registry)
                self.__dict__["_rv_reg"] = self._registry
            except Exception:
                pass
        else:
            ctx.count("probe_props_frozen")
            if self._registry is not self.__dict__.get("_rv_reg") or shallow_fp(self._registry) != fp:
                ctx.violation("probe:props_registry_mutated_in_place", {
                    "props_class": type(self).__name__, "registry": repr(self._registry)[:300],
                    "history_tail": list(ctx._tail)})
                self.__dict__["_rv_fp"] = shallow_fp(self._registry)
                self.__dict__["_rv_reg"] = self._registry
        return orig_get(self, name, *a, **kw)
    P.__init__ = init
    P.get = get
    return installed


def setup(ctx):
    ctx._tail = []
    ctx._installed = install_props_hook(ctx)


def teardown(ctx):
    for cls, name, fn in ctx._installed:
        setattr(cls, name, fn)


# ------------------------------------------------------------------------------------------------
# snapshots

def verdicts(schema, probes):
    out = []
    for v in probes:
        errs, exc = O.real_validate(schema, v)
        out.append(("EXC", type(exc).__name__) if exc is not None else tuple(type(e).__name__ for e in errs))
    return tuple(out)


def snapshot(schema, probes):
    try:
        r = repr(schema)
    except Exception as e:  # noqa
        r = f"<repr raised {type(e).__name__}>"
    return (r, dec.fingerprint(schema), verdicts(schema, probes))


def probes_for(schema, rng):
    vals = []
    try:
        spec = dec.decode(schema)
        for mode in ("rand", "min"):
            try:
                vals.append(witness(spec, rng, mode))
            except Unsat:
                break
        for w in list(vals[:1]):
            ps = list(perturbations(w, rng, spec))
            if len(ps) > 6:
                ps = rng.sample(ps, 6)
            vals.extend(p for p, _ in ps)
    except Exception:
        pass
    return vals + GENERIC[:9]   # shared objects on purpose: the same value object meets many schemas


def native_model(v):
    """History-independent model of from_native(v) as a spec (what the result must decode to, whatever ran before)."""
    import datetime as _dt
    import uuid as _uuid
    from ..spec import mk
    if v is None:
        return mk("none")
    for t, k in ((bool, "bool"), (int, "int"), (float, "float"), (str, "str")):
        if isinstance(v, t):
            return {"k": k, "value": v}
    if isinstance(v, list):
        return {"k": "list", "form": "elems", "elems": [native_model(x) for x in v]}
    if isinstance(v, dict):
        return {"k": "dict", "keys": [(k, native_model(x), False) for k, x in v.items()]}
    if isinstance(v, bytes):
        return {"k": "bytes", "value": v}
    if isinstance(v, _uuid.UUID):
        return {"k": "uuid4", "value": v}
    if isinstance(v, _dt.datetime):
        return {"k": "datetime", "value": v}
    if isinstance(v, _dt.date):
        return {"k": "date", "value": v}
    raise ValueError(v)


def struct_copy(v, depth=0):
    """(type-aware) structural snapshot of a value, order-sensitive for dicts."""
    if depth > 25:
        return "deep"
    if isinstance(v, list):
        return ("list", tuple(struct_copy(x, depth + 1) for x in v))
    if isinstance(v, tuple):
        return ("tuple", tuple(struct_copy(x, depth + 1) for x in v))
    if isinstance(v, dict):
        return (type(v).__name__, tuple((struct_copy(k, depth + 1), struct_copy(x, depth + 1)) for k, x in v.items()))
    from d42.declaration.types import Schema
    if isinstance(v, Schema):
        return ("schema", dec.fingerprint(v))
    if isinstance(v, float):
        return ("float", repr(v))
    try:
        return (type(v).__name__, repr(v))
    except Exception:
        return (type(v).__name__, id(v))


SINGLETONS = [("d42.validation", "_validator"), ("d42.validation", "_formatter"), ("d42.generation", "_generator"),
              ("d42.generation", "_random"), ("d42.substitution", "_substitutor"), ("d42.representation", "_representor")]


def singleton_state():
    out = []
    for m, name in SINGLETONS:
        obj = getattr(mod(m), name)
        st = []
        for k, v in sorted(vars(obj).items()):
            st.append((k, type(v).__name__, id(v), tuple(sorted((a, id(b)) for a, b in vars(v).items()))
                       if hasattr(v, "__dict__") and not callable(v) else None))
        out.append((name, tuple(st)))
    return tuple(out)


# ------------------------------------------------------------------------------------------------
# the history

class History:
    def __init__(self, ctx, rng, nops):
        self.ctx = ctx
        self.rng = rng
        self.nops = nops
        self.pool = []       # dicts: schema, probes, base, origin
        self.records = []    # replayable pure ops: (kind, thunk, outcome_signature)
        self.kinds = []
        self.singletons = singleton_state()

    def add(self, schema, origin):
        from d42.declaration.types import Schema
        if not isinstance(schema, Schema):
            return
        if len(self.pool) >= 40:
            # churn: drop a random non-recent entry (its immutability was checked until now)
            del self.pool[self.rng.randrange(0, 30)]
        probes = probes_for(schema, self.rng)
        self.pool.append({"schema": schema, "probes": probes, "base": snapshot(schema, probes), "origin": origin})
        # history independence of the printed form: an equal schema rebuilt from fresh objects (never printed, never
        # nested before) must print identically
        try:
            from ..build import build as _build
            spec = dec.decode(schema)
            # (only for schemas in the DSL's own normal form: results of substitution may hold e.g. un-flattened unions,
            # which a rebuild through the DSL would normalise)
            if dec.spec_eq(spec, dec.normalise(spec)) and \
                    not any(n.get("wrap") for _, n in __import__("rv.spec", fromlist=["walk"]).walk(spec)):
                fresh = _build(spec)
                self.ctx.count("repr_history_independence_checks")
                if repr(fresh) != repr(schema):
                    self.ctx.violation("repr_depends_on_history", {
                        "schema_origin": origin, "pooled_repr": repr(schema)[:300], "fresh_rebuild_repr": repr(fresh)[:300],
                        "history_tail": list(self.ctx._tail)})
        except Exception:
            pass

    def pick(self, pred=None):
        cands = [e for e in self.pool if pred is None or pred(e["schema"])]
        return self.rng.choice(cands) if cands else None

    def check_entry(self, e, opdesc):
        self.ctx.count("pool_entries_rechecked")
        now = snapshot(e["schema"], e["probes"])
        if now != e["base"]:
            what = [n for n, a, b in zip(("repr", "fingerprint", "verdicts"), now, e["base"]) if a != b]
            self.ctx.violation("pooled_schema_changed:" + "+".join(what), {
                "schema_origin": e["origin"], "before": e["base"][0][:300], "after": now[0][:300],
                "after_op": opdesc, "history_tail": list(self.ctx._tail)})
            e["base"] = now

    def quiescent(self, i, operands, opdesc):
        for e in operands:
            self.check_entry(e, opdesc)
        others = [e for e in self.pool if e not in operands]
        if i % 20 == 19 or i == self.nops - 1:
            for e in others:
                self.check_entry(e, opdesc)
        else:
            for e in self.rng.sample(others, min(5, len(others))):
                self.check_entry(e, opdesc)
        st = singleton_state()
        self.ctx.count("singleton_checks")
        if st != self.singletons:
            # internal state of a visitor object is not observable by itself (a correct implementation may cache);
            # it is recorded, and every *behavioural* consequence shows in the pool re-checks above
            self.ctx.table("singleton_state_changes(informational)", opdesc.split("(")[0][:40])
            self.singletons = st

    # -- running one op with argument protection ---------------------------------------------
    def run(self, kind, thunk, args=(), operands=(), replayable=True, desc=None):
        """thunk() executes the operation.  args: values passed in (checked for mutation)."""
        before = [struct_copy(a) for a in args]
        opdesc = desc or kind
        self.ctx._tail.append(opdesc)
        del self.ctx._tail[:-12]
        try:
            res = thunk()
            out = ("ok", res)
        except RecursionError:
            return ("skip", None)
        except Exception as e:  # noqa
            out = ("exc", e)
        self.ctx.table("ops", f"{kind}|{'returned' if out[0] == 'ok' else 'raised'}")
        if out[0] == "exc":
            self.ctx.table("op_exceptions", f"{kind}|{type(out[1]).__name__}")
        for a, b in zip(args, before):
            self.ctx.count("argument_checks")
            if struct_copy(a) != b:
                self.ctx.violation(f"argument_mutated:{kind}", {"op": opdesc, "outcome": out[0], "before": repr(b)[:300],
                                                                "after": repr(struct_copy(a))[:300]})
        if replayable:
            self.records.append((kind, thunk, self.signature(out), opdesc))
            if len(self.records) > 60:
                del self.records[self.rng.randrange(0, 30)]
        return out

    def signature(self, out):
        from d42.declaration.types import Schema
        st, res = out
        if st == "exc":
            return ("exc", type(res).__name__, str(res)[:300])
        if isinstance(res, Schema):
            return ("schema", dec.fingerprint(res), repr(res))
        return ("value", struct_copy(res))

    def replay_one(self):
        if not self.records:
            return
        kind, thunk, sig, opdesc = self.rng.choice(self.records)
        self.ctx.count("determinism_replays")
        try:
            out = ("ok", thunk())
        except RecursionError:
            return
        except Exception as e:  # noqa
            out = ("exc", e)
        now = self.signature(out)
        if now != sig:
            self.ctx.violation(f"operation_not_repeatable:{kind}", {"op": opdesc, "first": repr(sig)[:400],
                                                                    "again": repr(now)[:400],
                                                                    "history_tail": list(self.ctx._tail)})


def refinement_args(rng, kind):
    from niltype import Nil
    from d42 import schema
    wrong = [None, "x", 1.5, 1, True, b"x", [], {}, ..., Nil]
    if kind == "int":
        return [("__call__", (rng.choice([0, 1, 5, -3] + wrong),)), ("min", (rng.choice([0, -5, 3] + wrong),)),
                ("max", (rng.choice([0, 9, 3] + wrong),))]
    if kind == "float":
        return [("__call__", (rng.choice([0.5, 1.0] + wrong),)), ("min", (rng.choice([0.0, -1.5] + wrong),)),
                ("max", (rng.choice([2.5, 0.1] + wrong),)), ("precision", (rng.choice([1, 3, 0, 16] + wrong),))]
    if kind == "str":
        return [("__call__", (rng.choice(["ab", ""] + wrong),)), ("len", (rng.choice([0, 2, -1] + wrong),)),
                ("len", (rng.choice([1, ...]), rng.choice([3, ..., "x"]))), ("alphabet", (rng.choice(["ab", ""] + wrong),)),
                ("contains", (rng.choice(["a", "zz"] + wrong),)), ("regex", (rng.choice(["a+", "("] + wrong),))]
    if kind == "list":
        return [("len", (rng.choice([0, 2] + wrong),)), ("len", (rng.choice([1, ...]), rng.choice([3, ...])))]
    if kind in ("bool",):
        return [("__call__", (rng.choice([True, False] + wrong),))]
    if kind == "bytes":
        return [("__call__", (rng.choice([b"ab"] + wrong),))]
    return []


KIND_OF = {"IntSchema": "int", "FloatSchema": "float", "StrSchema": "str", "ListSchema": "list", "BoolSchema": "bool",
           "BytesSchema": "bytes"}


def step(h, i):
    from d42 import fake, optional, represent, schema, substitute, validate, validate_or_fail
    from d42.declaration.types import AnySchema, DictSchema, ListSchema, Schema
    from d42.utils import from_native, make_required, rollout
    rng = h.rng
    r = rng.random()
    operands = []

    def plain_value(depth=2):
        from ..props.C14 import gen_plain
        return gen_plain(rng, depth, big=False)
    if r < 0.08 or len(h.pool) < 6:
        spec = gen_spec(rng, PROF)
        s = O.try_build(h.ctx, spec)
        if s is not None:
            h.add(s, "dsl")
        h.kinds.append("new")
        return operands, "new"
    if r < 0.24:
        e = h.pick(lambda s: type(s).__name__ in KIND_OF)
        if e is None:
            return operands, "noop"
        operands.append(e)
        s = e["schema"]
        meth, args = rng.choice(refinement_args(rng, KIND_OF[type(s).__name__]))
        desc = f"{type(s).__name__}.{meth}{tuple(enc(a) for a in args)!r}"[:160]

        def thunk(s=s, meth=meth, args=args):
            return s(*args) if meth == "__call__" else getattr(s, meth)(*args)
        out = h.run("refine", thunk, args=list(args), operands=operands, desc=desc)
        if out[0] == "ok":
            h.add(out[1], "refine")
        h.kinds.append("refine")
        return operands, desc
    if r < 0.36:
        # declaration from a caller-owned container, then mutate the container
        members = [e["schema"] for e in rng.sample(h.pool, min(len(h.pool), rng.randint(0, 3)))]
        which = rng.choice(("list", "list_ell", "dict", "any", "dict_relaxed"))
        if which in ("list", "list_ell"):
            c = list(members)
            if which == "list_ell" and c:
                c = rng.choice(([...] + c, c + [...], [...] + c + [...]))
            out = h.run("declare_list", lambda c=c: schema.list(c), args=[c], desc=f"schema.list(<{len(c)} elems>)", replayable=False)
            if out[0] == "ok":
                h.add(out[1], "declare_list")
                # caller mutates its list afterwards
                m = rng.choice(("append", "pop", "replace", "clear", "insert_ell"))
                if m == "append":
                    c.append(schema.none)
                elif m == "pop" and c:
                    c.pop()
                elif m == "replace" and c:
                    c[0] = schema.bytes
                elif m == "clear":
                    del c[:]
                else:
                    c.insert(0, ...)
                h.ctx.count("container_aliasing_probes")
                h.ctx.table("aliasing_probe_sites", "schema.list(list)")
                operands.append(h.pool[-1])
        elif which in ("dict", "dict_relaxed"):
            c = {}
            for j, m_ in enumerate(members):
                k = rng.choice(("a", "b", "c", 1, None, ("t",), "k%d" % j))
                c[optional(k) if rng.random() < 0.3 else k] = m_
            if which == "dict_relaxed":
                c[...] = ...
            out = h.run("declare_dict", lambda c=c: schema.dict(c), args=[c], desc=f"schema.dict(<{len(c)} keys>)", replayable=False)
            if out[0] == "ok":
                h.add(out[1], "declare_dict")
                m = rng.choice(("add", "del", "replace", "clear"))
                if m == "add":
                    c["zz_later"] = schema.int
                elif m == "del" and c:
                    del c[next(iter(c))]
                elif m == "replace" and c:
                    c[next(iter(c))] = schema.bytes
                else:
                    c.clear()
                h.ctx.count("container_aliasing_probes")
                h.ctx.table("aliasing_probe_sites", "schema.dict(dict)")
                operands.append(h.pool[-1])
        else:
            if not members:
                members = [schema.int]
            out = h.run("declare_any", lambda: schema.any(*members), args=[members], desc="schema.any(*members)", replayable=False)
            if out[0] == "ok":
                h.add(out[1], "declare_any")
                members.append(schema.none)
                h.ctx.count("container_aliasing_probes")
                h.ctx.table("aliasing_probe_sites", "schema.any(*list)")
        h.kinds.append("declare_container")
        return operands, "declare_" + which
    if r < 0.44:
        v = plain_value(3)
        out = h.run("from_native", lambda v=v: from_native(v), args=[v], desc=f"from_native({enc(v)!r})"[:160], replayable=False)
        if out[0] == "ok":
            # the result must be a function of the argument alone, whatever was executed before
            try:
                h.ctx.count("from_native_model_checks")
                if not dec.spec_eq(dec.decode(out[1]), dec.normalise(native_model(v))):
                    h.ctx.violation("result_depends_on_history_or_differs_from_argument:from_native", {
                        "value": enc(v), "result": repr(out[1])[:300], "history_tail": list(h.ctx._tail)})
            except (dec.DecodeError, ValueError):
                pass
            h.add(out[1], "from_native")
            operands.append(h.pool[-1])
            if mutate_value(rng, v):
                h.ctx.count("container_aliasing_probes")
                h.ctx.table("aliasing_probe_sites", "from_native(container)")
        h.kinds.append("from_native")
        return operands, "from_native"
    if r < 0.58:
        e = h.pick()
        operands.append(e)
        s = e["schema"]
        v = rng.choice(e["probes"]) if rng.random() < 0.6 else plain_value(2)
        if rng.random() < (0.5 if isinstance(s, (ListSchema, DictSchema)) else 0.1):
            # unsorted / duplicate-laden containers: an implementation that normalises its argument in place shows here
            v = rng.choice(([5, 3, 9, 1, 7], [3, 3, 1, 2, 2, 0], {"b": 2, "a": 1, "c": [2, 1]}, ["b", "a", "c", "a"],
                            [[2, 1], [1, 2], [0]], [9, 8, 7, 6, 5, 4]))
        owned = not has_odd(v)
        v = copy.deepcopy(v) if owned else v
        out = h.run("substitute", lambda s=s, v=v: substitute(s, v), args=[v], operands=operands,
                    desc=f"substitute({repr(s)[:60]}, {enc(v)!r})"[:200], replayable=False)
        if out[0] == "ok":
            h.add(out[1], "substitute")
            operands.append(h.pool[-1])
            if owned and mutate_value(rng, v):
                h.ctx.count("container_aliasing_probes")
                h.ctx.table("aliasing_probe_sites", "substitute(schema, container)")
                # the caller substitutes the *same, now mutated* object again: the outcome must be the one an equal
                # fresh object gets (nothing may be remembered about the object's earlier contents)
                def again(val):
                    try:
                        return ("ok", substitute(s, val))
                    except RecursionError:
                        return ("skip", None)
                    except Exception as e:  # noqa
                        return ("exc", e)
                same_obj = again(v)
                fresh_obj = again(copy.deepcopy(v))
                if same_obj[0] != "skip" and fresh_obj[0] != "skip":
                    h.ctx.count("same_object_resubstitutions")
                    if h.signature(same_obj) != h.signature(fresh_obj):
                        h.ctx.violation("operation_depends_on_object_identity:substitute", {
                            "schema": repr(s)[:200], "value_now": enc(v), "same_object": repr(h.signature(same_obj))[:300],
                            "fresh_equal_object": repr(h.signature(fresh_obj))[:300]})
        h.kinds.append("substitute")
        return operands, "substitute"
    if r < 0.66:
        a, b = h.pick(), h.pick()
        operands += [a, b]
        op = rng.choice(("or", "plus", "eq", "ne"))
        if op == "plus":
            a2 = h.pick(lambda s: isinstance(s, DictSchema))
            b2 = h.pick(lambda s: isinstance(s, DictSchema))
            if a2 is not None and b2 is not None:
                a, b = a2, b2
                operands[:] = [a, b]
        f = {"or": lambda x, y: x | y, "plus": lambda x, y: x + y, "eq": lambda x, y: x == y, "ne": lambda x, y: x != y}[op]
        out = h.run(op, lambda a=a, b=b, f=f: f(a["schema"], b["schema"]), operands=operands, desc=f"{op}(pool, pool)")
        if out[0] == "ok":
            h.add(out[1], op)
        h.kinds.append(op)
        return operands, op
    if r < 0.74:
        e = h.pick()
        operands.append(e)
        s = e["schema"]
        op = rng.choice(("fake", "invert"))
        h.run(op, (lambda s=s: fake(s)) if op == "fake" else (lambda s=s: ~s), operands=operands, replayable=False, desc=op)
        h.kinds.append("fake")
        return operands, op
    if r < 0.88:
        e = h.pick()
        operands.append(e)
        s = e["schema"]
        v = rng.choice(e["probes"] + GENERIC)
        op = rng.choice(("validate", "validate_or_fail", "repr", "represent", "eq_value", "validate_kwargs"))
        f = {"validate": lambda: tuple(type(x).__name__ for x in validate(s, v).get_errors()),
             "validate_kwargs": lambda: tuple(type(x).__name__ for x in validate(s, v, marker=1).get_errors()),
             "validate_or_fail": lambda: validate_or_fail(s, v), "repr": lambda: repr(s),
             "represent": lambda: represent(s, indent=rng.choice((0, 4))), "eq_value": lambda: s == v}[op]
        h.run(op, f, args=[v], operands=operands, replayable=op not in ("represent",), desc=f"{op}(pool, {enc(v)!r})"[:160])
        h.kinds.append(op)
        return operands, op
    if r < 0.95:
        e = h.pick(lambda s: isinstance(s, (DictSchema, AnySchema)))
        if e is None:
            return operands, "noop"
        operands.append(e)
        s = e["schema"]
        if isinstance(s, DictSchema):
            keys = list(s.keys())
            op = rng.choice(("make_required", "getitem", "iter", "keys"))
            if op == "make_required":
                ks = [k for k in keys if k is not ...]
                K = rng.choice((None, ks, ks[:1], ["nope"], set(), tuple(ks[:2])))
                Kc = copy.copy(K)
                out = h.run(op, lambda: make_required(s, K), args=[K] if K is not None else [], operands=operands,
                            desc=f"make_required(pool, {enc(Kc)!r})"[:120])
                if out[0] == "ok":
                    h.add(out[1], op)
            elif op == "getitem":
                k = rng.choice(keys + ["nope", ...]) if keys else "nope"
                out = h.run(op, lambda: s[k], operands=operands, desc="getitem")
                if out[0] == "ok":
                    h.add(out[1], op)
            elif op == "iter":
                h.run(op, lambda: [repr(k) for k in s], operands=operands, desc="iter(dict)")
            else:
                h.run(op, lambda: [repr(k) for k in s.keys()], operands=operands, desc="keys()")
        else:
            op = "iter_any"
            out = h.run(op, lambda: [dec.fingerprint(x) for x in s], operands=operands, desc="iter(any)")
        h.kinds.append(op)
        return operands, op
    if r < 0.98:
        e = h.pick()
        operands.append(e)
        from .. import custom
        out = h.run("custom_wrap", lambda: custom.wrap(e["schema"]), operands=operands, replayable=False, desc="custom wrap")
        if out[0] == "ok":
            h.add(out[1], "custom")
        h.kinds.append("custom")
        return operands, "custom_wrap"
    # rollout
    leaves = [e["schema"] for e in rng.sample(h.pool, min(3, len(h.pool)))]
    keys = {}
    for j, lf in enumerate(leaves):
        k = rng.choice(("a.b", "a.c", "x", "a.d.e", "y.z"))
        keys[optional(k) if rng.random() < 0.3 else k] = lf
    snap = list(keys.items())
    out = h.run("rollout", lambda: rollout(keys), args=[keys], replayable=False, desc="rollout")
    if list(keys.items()) != snap:
        h.ctx.violation("argument_mutated:rollout", {"op": "rollout"})
    h.kinds.append("rollout")
    return operands, "rollout"


def has_odd(v, d=0):
    from ..gen_value import OddValue
    if isinstance(v, OddValue) or v is ...:
        return True
    if d > 10:
        return False
    if isinstance(v, list):
        return any(has_odd(x, d + 1) for x in v)
    if isinstance(v, dict):
        return any(has_odd(x, d + 1) for x in v.values())
    return False


def mutate_value(rng, v):
    """Mutate a caller-owned container in place (also nested).  -> True if something was mutated."""
    if isinstance(v, list):
        if v and isinstance(v[0], (list, dict)) and rng.random() < 0.5:
            return mutate_value(rng, v[0])
        m = rng.choice(("append", "pop", "replace"))
        if m == "append" or not v:
            v.append("zz_later")
        elif m == "pop":
            v.pop()
        else:
            v[0] = "zz_replaced"
        return True
    if isinstance(v, dict):
        for k in v:
            if isinstance(v[k], (list, dict)) and rng.random() < 0.5:
                return mutate_value(rng, v[k])
        m = rng.choice(("add", "del", "replace"))
        if m == "add" or not v:
            v["zz_later"] = 1
        elif m == "del":
            del v[next(iter(v))]
        else:
            v[next(iter(v))] = "zz_replaced"
        return True
    return False


def run_case(ctx, rng, case):
    nops = ctx.params["ops"]
    del ctx._tail[:]
    h = History(ctx, rng, nops)
    for _ in range(8):
        spec = gen_spec(rng, PROF)
        s = O.try_build(ctx, spec)
        if s is not None:
            h.add(s, "dsl")
    for i in range(nops):
        ctx.count("operations")
        operands, desc = step(h, i)
        operands = [e for e in operands if e is not None]
        h.quiescent(i, operands, desc)
        if h.rng.random() < 0.15:
            h.replay_one()
    from ..common import h as hh
    ctx.distinct(hh(h.kinds), any(k in ("refine", "declare_container", "substitute", "from_native") for k in h.kinds))
    if case % 24 == 0:
        ctx.sample({"ops": h.kinds[:40], "pool_size": len(h.pool)})


def required(m, tier):
    c = m["counters"]
    out = []
    for k in ("operations", "pool_entries_rechecked", "argument_checks", "container_aliasing_probes", "determinism_replays",
              "singleton_checks", "probe_props_frozen"):
        if c.get(k, 0) == 0:
            out.append(f"oracle counter {k} is zero")
    t = m["tables"].get("ops", {})
    for op in ("refine", "substitute", "declare_list", "declare_dict", "from_native", "plus", "or", "make_required"):
        if t.get(f"{op}|returned", 0) == 0:
            out.append(f"operation {op} never returned")
    for op in ("refine", "substitute"):
        if t.get(f"{op}|raised", 0) == 0:
            out.append(f"operation {op} never raised")
    return out
