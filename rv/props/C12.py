"""C12 - substitution fails only with SubstitutionError and is idempotent."""
from .. import decode as dec
from .. import oracles as O
from .. import probes
from ..common import enc
from ..gen_subst import contains_nan, gen_pair, is_plain
from ..gen_value import Unsat, unsat_members, witness
from ..spec import nontrivial, shape, show
from .C01 import features

LEVEL = "exploration"
RULE = ("cases = (schema spec, value) with values conforming, partial (keys dropped at declared dict positions at any depth), one-step "
        "perturbed, containing members from_native cannot convert at every position from_native serves, extra keys under relaxed dicts at "
        "any depth (inside contains-lists, unions, typed lists, aliases), ... placeholders, and the hostile zoo; oracle: only "
        "SubstitutionError may escape; a returned schema must print, validate, be satisfiable (constructive witness of the decoded result "
        "accepted by the real validator) and generate accepted values under adversarial RNG schedules; for plain values re-substitution "
        "returns an == and fingerprint-equal schema. Distinct by (abstract spec shape, value kind); non-trivial = >=1 constraint or nesting.")
ASSUMPTIONS = ["values containing NaN are judged for the exception class only (nan != nan)",
               "usability is demanded only when the original schema is hereditarily satisfiable",
               "RecursionError on self-referential values is Python's own limit, not judged"]
TIERS = {"quick": dict(shards=16, cases=20000), "thorough": dict(shards=16, cases=120000)}


def setup(ctx):
    ctx._reach = probes.Reach()
    ctx._reach.start()


def teardown(ctx):
    ctx._reach.stop()
    ctx.extra["reach"] = ctx._reach.dump()


def run_case(ctx, rng, case):
    from d42 import substitute
    from d42.declaration.types import Schema
    from d42.substitution.errors import SubstitutionError
    hostile = rng.random() < 0.7
    spec, v, vkind = gen_pair(rng, hostile=hostile)
    schema = O.try_build(ctx, spec)
    if schema is None:
        return
    ctx.distinct([shape(spec), vkind], nontrivial(spec))
    info = {"spec": show(spec), "repr": repr(schema)[:400], "value": enc(v), "vkind": vkind}
    if case % 900 == 0:
        ctx.sample({"repr": repr(schema)[:300], "value": enc(v), "vkind": vkind})
    ctx.count("substitute_calls")
    try:
        r = substitute(schema, v)
    except SubstitutionError:
        ctx.table("outcome", f"{vkind}|SubstitutionError")
        return
    except RecursionError:
        ctx.count("recursion_skipped")
        return
    except Exception as e:  # noqa
        xi = O.exc_info(e)
        ctx.table("outcome", f"{vkind}|{xi['type']}")
        ctx.violation(f"substitute_raised:{xi['type']}@{xi['where']}", {**info, "exc": xi})
        return
    ctx.table("outcome", f"{vkind}|returned")
    if not isinstance(r, Schema):
        ctx.violation("substitute_returned_non_schema", {**info, "got": repr(r)[:100]})
        return
    plain = is_plain(v)
    if contains_nan(v):
        # nan != nan: "accepts nothing" / "equal schema" are undefined for a pinned NaN (stated exclusion)
        ctx.count("nan_value_excluded")
        return
    # idempotence (plain values)
    if plain:
        ctx.count("idempotence_evaluated")
        try:
            r2 = substitute(r, v)
        except RecursionError:
            r2 = None
        except Exception as e:  # noqa
            r2 = None
            ctx.violation(f"resubstitution_raised:{type(e).__name__}", {**info, "result": repr(r)[:300],
                                                                        "exc": O.exc_info(e)})
        if r2 is not None:
            try:
                same = (r2 == r) and (r == r2) and dec.fingerprint(r2) == dec.fingerprint(r)
            except Exception as e:  # noqa
                same = None
                ctx.violation("eq_raised", {**info, "exc": O.exc_info(e)})
            if same is False:
                ctx.violation("resubstitution_not_equal", {**info, "result": repr(r)[:300], "again": repr(r2)[:300]})
    # usability
    try:
        rtext = repr(r)
    except Exception as e:  # noqa
        ctx.violation("result_repr_raised", {**info, "exc": O.exc_info(e)})
        return
    errs, exc = O.real_validate(r, v)
    if exc is not None and not isinstance(exc, RecursionError):
        ctx.violation("result_validate_raised", {**info, "result": rtext[:300], "exc": O.exc_info(exc)})
    try:
        witness(spec, rng)
        um = unsat_members(spec, rng)
    except Unsat:
        ctx.count("original_unsat_skipped")
        return
    if um:
        ctx.count("original_has_unsat_member_skipped")
        return
    try:
        rspec = dec.inherit_examples(dec.decode(r), spec)
    except dec.DecodeError as e:
        ctx.count("result_undecodable")
        rspec = None
    if rspec is not None:
        ctx.count("satisfiability_evaluated")
        try:
            w = witness(rspec, rng)
            e2, x2 = O.real_validate(r, w)
            if x2 is None and not e2:
                ctx.count("result_witness_confirmed")
        except Unsat as e:
            ctx.violation("result_accepts_nothing", {**info, "result": rtext[:300], "reason": str(e)})
            return
    feats = features(rspec) if rspec is not None else []
    for name, w, exc in O.generate_all(ctx, r, rng, real_runs=1, max_sched=8 if ctx.tier == "quick" else 30):
        if exc is not None:
            xi = O.exc_info(exc)
            ctx.violation(f"result_fake_raised:{xi['type']}", {**info, "result": rtext[:300], "schedule": name, "exc": xi,
                                                               "features": feats})
            break
        ctx.count("generated_from_result")
        e3, x3 = O.real_validate(r, w)
        if x3 is not None or e3:
            ctx.violation("result_generates_rejected_value", {**info, "result": rtext[:300], "schedule": name,
                                                              "generated": enc(w), "features": feats,
                                                              "errors": [repr(e)[:160] for e in (e3 or [])[:3]]})
            break


def required(m, tier):
    c = m["counters"]
    out = []
    t = m["tables"].get("outcome", {})
    if not any(k.endswith("|returned") for k in t) or not any(k.endswith("|SubstitutionError") for k in t):
        out.append("one outcome class (returned / SubstitutionError) never observed")
    if c.get("idempotence_evaluated", 0) == 0:
        out.append("idempotence oracle never evaluated")
    if c.get("generated_from_result", 0) == 0:
        out.append("no value generated from a substitution result")
    return out


def coverage_extra(m, tier):
    files = ["d42/substitution/_substitutor.py", "d42/substitution/_validator.py", "d42/utils/_from_native.py"]
    return {"reach": probes.reach_summary(m["extra"].get("reach", {}), files)}
