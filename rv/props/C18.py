"""C18 - rollout is the inverse of flattening dotted keys."""
import copy
import itertools

from ..common import case_rng, enc

LEVEL = "exploration"
RULE = ("cases = nested mappings (depth<=4, fan-out 0-5, keys incl. the empty string, unicode and the *other* separators, leaves = "
        "schemas/ints/None/lists/tuples/strings, optional on any subset of leaves, with/without the top-level ...: ... entry) x "
        "separators {., |, ::, __, /, space} x key orders (identity, reversed, random, sibling-separating interleavings); the harness's "
        "own flatten produces the flat form; oracle: rollout(flat, separator=s) == N (deep ==, optional markers on the same leaves, "
        "leaves identical objects), input not mutated, rollout(N) == N for separator-free N. Plus an exhaustive part: all trees with "
        "<=3 leaves (thorough: <=4) over a 3-key alphabet, depth<=3, x all optional subsets x all permutations of the flat keys. "
        "Distinct by (tree shape, optional placement, separator, order class); non-trivial = depth>=2 or >=2 leaves.")
ASSUMPTIONS = ["inner levels are non-empty (an empty inner dict has no flat representation)",
               "sibling names are unique per level; keys do not contain the chosen separator"]
REACH_FILES = ['d42/utils/_rollout.py']
TIERS = {"quick": dict(shards=16, cases=30000, exh_leaves=3), "thorough": dict(shards=16, cases=600000, exh_leaves=4)}

SEPS = [".", "|", "::", "__", "/", " ", "\\", "+", "$", "->"]
KEYPOOL = ["a", "b", "c", "id", "name", "", "x1", "ключ", "a-b", "A", "0", "items", "meta", "k",
           # keys that an escaping / regex-splitting / formatting rollout would trip over
           "C:\\", "a\\", "\\", "a\\b", "%s", "{k}", "a*", "[0]", "(x", "^a", "a\n", "\\\\"]


class Leaf:
    """Opaque payload with identity."""

    def __init__(self, n):
        self.n = n

    def __repr__(self):
        return f"<leaf {self.n}>"


def gen_leaf(rng, counter):
    from d42 import schema
    counter[0] += 1
    r = rng.random()
    if r < 0.3:
        return rng.choice((schema.int, schema.str.len(1, ...), schema.none, schema.list(schema.int)))
    if r < 0.45:
        return counter[0]
    if r < 0.55:
        return None
    if r < 0.65:
        return [counter[0], "x"]
    if r < 0.72:
        return (1, counter[0])
    if r < 0.82:
        return "s%d" % counter[0]
    if r < 0.87:
        return ...            # the Ellipsis object itself as an ordinary payload
    return Leaf(counter[0])


def gen_tree(rng, depth, sep, counter, root=False):
    from d42 import optional
    others = [s for s in SEPS if s != sep and sep not in s]
    pool = [k for k in KEYPOOL + others if sep not in k]
    lo = 0 if root else 1
    n = rng.choice((lo, 1, 1, 2, 2, 3, 4, 5))
    n = max(lo, n)
    keys = rng.sample(pool, min(n, len(pool)))
    out = {}
    for k in keys:
        if depth > 1 and rng.random() < 0.45:
            out[k] = gen_tree(rng, depth - 1, sep, counter)
        else:
            leaf = gen_leaf(rng, counter)
            if rng.random() < 0.3:
                out[optional(k)] = leaf
            else:
                out[k] = leaf
    return out


def flatten(tree, sep, prefix=None):
    """The harness's own flattening: join the key path with sep; optional on a leaf wraps the joined key."""
    from d42 import optional
    out = []
    for k, v in tree.items():
        if k is ...:
            out.append((k, v))
            continue
        is_opt = isinstance(k, optional)
        name = k.key if is_opt else k
        path = name if prefix is None else prefix + sep + name
        if isinstance(v, dict) and not is_opt:
            out.extend(flatten(v, sep, path))
        else:
            out.append((optional(path) if is_opt else path, v))
    return out


def deep_equal(a, b, path=()):
    """Deep equality: dicts key-wise (optional via its own ==/hash), leaves by identity. -> (ok, where)"""
    if isinstance(a, dict) and isinstance(b, dict):
        if len(a) != len(b):
            return False, (path, "size", len(a), len(b))
        for k, v in a.items():
            if k not in b:
                return False, (path, "missing key", repr(k))
            ok, w = deep_equal(v, b[k], path + (repr(k),))
            if not ok:
                return ok, w
        return True, None
    if isinstance(a, dict) or isinstance(b, dict):
        return False, (path, "dict vs leaf")
    if a is b:
        return True, None
    return False, (path, "leaf differs", repr(a)[:60], repr(b)[:60])


def orders(rng, flat):
    n = len(flat)
    yield "identity", list(flat)
    if n > 1:
        yield "reversed", list(reversed(flat))
        x = list(flat)
        rng.shuffle(x)
        yield "random", x
        # separate siblings maximally: stable sort by the *last* character of the key text
        def keytext(p):
            k = p[0]
            return "" if k is ... else (k.key if hasattr(k, "key") else k)
        yield "interleaved", sorted(flat, key=lambda p: (keytext(p)[::-1], keytext(p)))


def check(ctx, tree, sep, order_name, flat_pairs, info):
    from d42.utils import rollout
    flat = dict(flat_pairs)
    if len(flat) != len(flat_pairs):
        ctx.count("flatten_collision(harness)")
        return
    snapshot = list(flat.items())
    ctx.count("rollouts")
    try:
        got = rollout(flat, separator=sep) if sep != "." or ctx.case % 2 else rollout(flat)
    except Exception as e:  # noqa
        ctx.violation(f"rollout_raised:{type(e).__name__}", {**info, "order": order_name, "flat": enc([k for k, _ in flat_pairs]),
                                                             "exc": f"{type(e).__name__}: {str(e)[:150]}"})
        return
    ok, where = deep_equal(tree, got)
    if not ok:
        ctx.violation("rollout_is_not_the_inverse", {**info, "order": order_name, "flat_keys": enc([repr(k) for k, _ in flat_pairs]),
                                                     "where": enc(where), "got": repr(got)[:400]})
    now = list(flat.items())
    if len(now) != len(snapshot) or any(a[0] is not b[0] or a[1] is not b[1] for a, b in zip(now, snapshot)):
        ctx.violation("input_mapping_mutated", {**info, "order": order_name})


def tshape(tree):
    from d42 import optional
    out = []
    for k, v in tree.items():
        if k is ...:
            out.append("...")
        elif isinstance(v, dict) and not isinstance(k, optional):
            out.append(["n", tshape(v)])
        else:
            out.append("o" if isinstance(k, optional) else "l")
    return out


def depth_of(tree):
    from d42 import optional
    return 1 + max([depth_of(v) for k, v in tree.items() if isinstance(v, dict) and not isinstance(k, optional) and k is not ...]
                   or [0])


def run_random_case(ctx, case):
    from d42.utils import rollout
    rng = case_rng(ctx.seed, "C18", 0, case)
    sep = rng.choice(SEPS)
    counter = [0]
    tree = gen_tree(rng, rng.choice((1, 2, 2, 3, 3, 4)), sep, counter, root=True)
    if rng.random() < 0.25:
        tree[...] = ...
    flat_pairs = flatten(tree, sep)
    d = depth_of(tree)
    info = {"tree": repr(tree)[:500], "separator": sep, "depth": d}
    ctx.table("depth", str(d))
    ctx.table("separator", sep)
    if case % 4000 == 0:
        ctx.sample({"tree": repr(tree)[:300], "separator": sep, "flat_keys": [repr(k) for k, _ in flat_pairs][:10]})
    for name, order in orders(rng, flat_pairs):
        ctx.distinct([tshape(tree), sep, name], d >= 2 or len(flat_pairs) >= 2)
        check(ctx, tree, sep, name, order, info)
    # identity on an already nested, separator-free mapping
    snap = copy.copy(tree)
    try:
        got = rollout(tree, separator=sep)
        ctx.count("identity_checks")
        ok, where = deep_equal(tree, got)
        if not ok:
            ctx.violation("rollout_of_nested_mapping_is_not_identity", {**info, "where": enc(where), "got": repr(got)[:300]})
        if list(tree.items()) != list(snap.items()):
            ctx.violation("input_mapping_mutated", {**info, "order": "nested-identity"})
    except Exception as e:  # noqa
        ctx.violation(f"rollout_raised:{type(e).__name__}", {**info, "order": "nested-identity",
                                                             "exc": f"{type(e).__name__}: {str(e)[:150]}"})


def enum_trees(alphabet, leaves, depth):
    """All trees with exactly `leaves` leaves (>=1), depth <= depth, keys from alphabet (unique per level).
    A tree is a tuple of (key, child) with child None (leaf) or a tree."""
    if leaves <= 0:
        return
    for r in range(1, min(len(alphabet), leaves) + 1):
        for keys in itertools.combinations(alphabet, r):
            # distribute leaves among keys (each >= 1)
            for split in compositions(leaves, r):
                options = []
                for k, n in zip(keys, split):
                    opts = []
                    if n == 1:
                        opts.append(None)
                    if depth > 1:
                        opts.extend(enum_trees(alphabet, n, depth - 1))
                    options.append([(k, o) for o in opts])
                for combo in itertools.product(*options):
                    yield tuple(combo)


def compositions(n, k):
    if k == 1:
        yield (n,)
        return
    for i in range(1, n - k + 2):
        for rest in compositions(n - i, k - 1):
            yield (i,) + rest


def realise(t, opt_mask, counter):
    from d42 import optional
    out = {}
    for k, child in t:
        if child is None:
            leaf = Leaf(counter[0])
            idx = counter[0]
            counter[0] += 1
            out[optional(k) if opt_mask >> idx & 1 else k] = leaf
        else:
            out[k] = realise(child, opt_mask, counter)
    return out


def run_shard(ctx):
    total = ctx.params["cases"]
    ids = range(ctx.shard, total, ctx.nshards) if ctx.only is None else ([ctx.only] if ctx.only < 10 ** 9 else [])
    for case in ids:
        ctx.case = case
        ctx.count("evaluations")
        run_random_case(ctx, case)
    # exhaustive part
    idx = 10 ** 9
    alphabet = ("a", "b", "")
    for leaves in range(1, ctx.params["exh_leaves"] + 1):
        for t in enum_trees(alphabet, leaves, 3):
            idx += 1
            if idx % ctx.nshards != ctx.shard:
                continue
            if ctx.only is not None and idx != ctx.only:
                continue
            ctx.case = idx
            ctx.count("evaluations")
            ctx.count("exhaustive_trees")
            for sep in (".", "__"):
                for mask in range(1 << leaves):
                    tree = realise(t, mask, [0])
                    flat_pairs = flatten(tree, sep)
                    info = {"tree": repr(tree)[:400], "separator": sep, "exhaustive": True}
                    ctx.distinct([tshape(tree), sep, "exh"], leaves >= 2)
                    for perm in itertools.permutations(flat_pairs):
                        ctx.count("exhaustive_permutations")
                        check(ctx, tree, sep, "perm", list(perm), info)


def required(m, tier):
    c = m["counters"]
    out = []
    if c.get("rollouts", 0) == 0:
        out.append("rollout never called")
    if c.get("exhaustive_permutations", 0) == 0:
        out.append("exhaustive part did not run")
    if c.get("flatten_collision(harness)", 0) > 0:
        out.append("harness flatten produced colliding keys")
    d = m["tables"].get("depth", {})
    if not any(int(k) >= 3 for k in d):
        out.append("no tree of depth >= 3")
    return out


def coverage_extra(m, tier):
    return {"exhaustive": True, "exhaustive_scope": "all trees with <= exh_leaves leaves over the 3-key alphabet {a, b, ''}, depth <= 3, "
            "x all optional subsets x 2 separators x all permutations of the flat keys; the random part is sampled"}
