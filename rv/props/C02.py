"""C02 - the validation verdict equals the declared constraints (reference-model monitor)."""
from .. import oracles as O
from ..common import enc
from ..gen_spec import Profile, gen_spec
from ..ref import UNJUDGED, accepts
from ..spec import nontrivial, shape, show

LEVEL = "exploration"
RULE = ("cases = random schema specs (13 kinds, depth<=3, value+constraint combos, all list/len forms, "
        "optional/relaxed dict keys, unions, aliases) built through the DSL; each is validated against witnesses "
        "from an independent generator, every one-step perturbation of them at every depth, boundary values and "
        "zoo values; the oracle is an independent reference acceptor over the *spec*. A case is distinct by its "
        "abstract shape (literals replaced by classes) and non-trivial if it has >=1 constraint or nesting level.")
ASSUMPTIONS = ["reference semantics rv/ref.py is the intended meaning (isinstance typing, re.search, inclusive bounds)",
               "floats inside the documented tolerance zone and NaN-vs-bounds are UNJUDGED, not judged",
               "validate() raising is attributed to C08, not C02"]
REACH_FILES = ['d42/validation/_validator.py', 'd42/validation/__init__.py']
TIERS = {"quick": dict(shards=16, cases=10000), "thorough": dict(shards=16, cases=48000)}

PROF = Profile(max_depth=3, nonfinite=True)


def run_case(ctx, rng, case):
    spec = gen_spec(rng, PROF)
    schema = O.try_build(ctx, spec)
    if schema is None:
        return
    O.decode_selfcheck(ctx, spec, schema)
    ctx.distinct(shape(spec), nontrivial(spec))
    if case % 400 == 0:
        ctx.sample({"spec": show(spec), "repr": repr(schema)[:300]})
    n_acc = n_rej = 0
    for v, origin in O.candidate_values(ctx, spec, rng, max_pert=80 if ctx.tier == "quick" else 160):
        r = accepts(spec, v)
        if r is UNJUDGED:
            ctx.count("unjudged")
            continue
        errs, exc = O.real_validate(schema, v)
        if exc is not None:
            ctx.count("validate_raised(C08)")
            continue
        ctx.count("pairs_judged")
        got = not errs
        ctx.table("verdicts", f"{spec['k']}|{origin[0]}:{origin[1] if len(origin) > 1 else ''}|{'acc' if r else 'rej'}")
        if got:
            n_acc += 1
        else:
            n_rej += 1
            ctx.table("error_kinds", type(errs[0]).__name__)
        if got != r:
            ctx.violation("verdict_mismatch:" + ("accepts_nonconforming" if got else "rejects_conforming"),
                          {"spec": show(spec), "value": enc(v), "origin": list(map(str, origin)),
                           "ref": r, "validate_ok": got, "errors": [repr(e)[:200] for e in (errs or [])[:3]],
                           "repr": repr(schema)[:300]})
        # schema == value  <=>  validates
        try:
            eqv = (schema == v)
            ctx.count("eq_value_checked")
            if bool(eqv) != got:
                ctx.violation("eq_value_mismatch", {"spec": show(spec), "value": enc(v), "eq": bool(eqv),
                                                    "validate_ok": got})
        except Exception as e:
            ctx.violation("eq_value_raised", {"spec": show(spec), "value": enc(v), "exc": O.exc_info(e)})
    if n_acc:
        ctx.count("specs_with_accept")
    if n_rej:
        ctx.count("specs_with_reject")


def required(m, tier):
    out = []
    c = m["counters"]
    if c.get("pairs_judged", 0) == 0:
        out.append("reference oracle never evaluated")
    if c.get("decode_mismatch", 0):
        out.append(f"decoder self-check failed {c['decode_mismatch']} time(s): {m['extra'].get('decode_mismatch_examples')}")
    if c.get("specs_with_accept", 0) == 0 or c.get("specs_with_reject", 0) == 0:
        out.append("one verdict class was never observed")
    return out


def coverage_extra(m, tier):
    c = m["counters"]
    j = c.get("pairs_judged", 0)
    u = c.get("unjudged", 0)
    return {"unjudged_fraction": round(u / max(1, j + u), 5)}
