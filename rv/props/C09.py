"""C09 - regex generation yields a full match or refuses loudly."""
import re

from .. import advrandom
from .. import oracles as O
from .. import regexgen
from ..common import mod

LEVEL = "exploration"
RULE = ("cases = regular-expression programs generated from a grammar (literals/escapes, ., \\d, \\w, classes with ranges/negation, "
        "capturing/non-capturing/named groups, alternation incl. empty branches, greedy+lazy quantifiers incl. open-ended ones "
        "above the default cap, anchors at the ends), one third with a listed unsupported construct embedded at a random position; "
        "each program is generated from under adversarial RNG schedules with max_repeat in {32, 3, 0} and through "
        "fake(schema.str.regex(p)); oracle = re.fullmatch (supported: must match; unsupported: match or raise). Distinct by "
        "abstract program shape; non-trivial = contains a class, group, alternation or quantifier.")
ASSUMPTIONS = ["inline flags, \\b/\\B and anchors in the middle are outside both lists of the property and are not generated",
               "a negated class is only generated when at least one printable candidate remains"]
CASE_TIMEOUT = 6
REACH_FILES = ['d42/generation/_regex_generator.py']
TIERS = {"quick": dict(shards=16, cases=6000), "thorough": dict(shards=16, cases=90000)}


LONG_COUNTS = (76, 100, 127, 128, 129, 255, 256, 257, 500, 1000, 1023, 1024, 1025, 2047, 2048, 2049, 4096, 10000)


def run_case(ctx, rng, case):
    from d42 import fake, schema, validate
    G = mod("d42.generation")
    if case < 150:
        # systematic part, independent of the seed: every explicit upper bound 1..75 (a bound must never be confused
        # with a constant of the regex engine), with a cap above and below it
        n = case // 2 + 1
        pat = ("a{0,%d}" % n) if case % 2 == 0 else ("(?:ab){1,%d}x" % n)
        rx = re.compile(pat)
        ctx.distinct(["systematic_bound", n, case % 2], True)
        for max_repeat in (100, 32, 3):
            gen = G.RegexGenerator(G.Random(), max_repeat=max_repeat)
            for sched in ("hi", "lo", "mid", "seeded"):
                adv = advrandom.Adversary(sched, seed=rng.getrandbits(32))
                with advrandom.installed(adv):
                    try:
                        out, exc = gen.generate(pat), None
                    except Exception as e:  # noqa
                        out, exc = None, e
                ctx.count("generate_calls")
                ctx.count("systematic_bound_generations")
                judge(ctx, pat, rx, out, exc, False, [], f"systematic/max_repeat={max_repeat}/{sched}")
        return
    if case < 150 + 4 * len(LONG_COUNTS):
        # second systematic part: counted repeats whose *required* length is far beyond anything the random
        # programs ask for (a length cap / buffer limit that ignores the minimum count must not go unnoticed)
        n = LONG_COUNTS[(case - 150) // 4]
        form = (case - 150) % 4
        pat = ("x{%d}" % n, "^(?:[01]{4} ){%d}$" % n, "[0-9a-f]{%d,%d}" % (n, n + 3), "a{%d,%d}?b" % (n, n + 2))[form]
        rx = re.compile(pat)
        ctx.distinct(["systematic_long_count", n, form], True)
        for max_repeat in (100, 32):
            gen = G.RegexGenerator(G.Random(), max_repeat=max_repeat)
            for sched in ("hi", "lo", "seeded"):
                adv = advrandom.Adversary(sched, seed=rng.getrandbits(32))
                with advrandom.installed(adv):
                    try:
                        out, exc = gen.generate(pat), None
                    except Exception as e:  # noqa
                        out, exc = None, e
                ctx.count("generate_calls")
                ctx.count("systematic_long_count_generations")
                judge(ctx, pat, rx, out, exc, False, [], f"systematic_long/max_repeat={max_repeat}/{sched}")
        return
    unsupported = (case % 3 == 2)
    node = regexgen.gen_pattern(rng, depth=rng.choice((0, 1, 2, 2, 3)), anchors=True,
                                big_repeat=rng.random() < 0.3, unsupported=unsupported)
    pat = node.render()
    if node.maxlen(100) > 6000:
        ctx.count("program_too_long_skipped")
        return
    try:
        rx = re.compile(pat)
    except re.error as e:
        ctx.count("pattern_not_compilable(harness)")
        ctx.table("uncompilable", str(e)[:40])
        return
    except (OverflowError, RecursionError):
        ctx.count("pattern_not_compilable(harness)")
        return
    if not unsupported:
        # self-check of the harness: the node's own example must match (else the program is mis-rendered)
        try:
            ex = node.example(rng)
        except Exception:
            ex = None
        if ex is None or not rx.fullmatch(ex):
            ctx.count("example_selfcheck_failed(harness)")
            return
        ctx.count("example_selfcheck_ok")
    shp = str(node.shape())
    nontriv = any(t in shp for t in ("class", "group", "alt", "rep"))
    ctx.distinct(shp[:300], nontriv)
    labels = sorted(node.unsupported_kinds())
    if case % 700 == 0 or (unsupported and case % 500 == 2):
        ctx.sample({"pattern": pat, "unsupported": labels})
    if case % 4 == 1:
        # another generator with custom (subset) alphabets is built and used first: instances must not share state
        try:
            own = G.RegexGenerator(G.Random(), alphabet={"letters": "ab ", "digits": "123456789", "word": "abcxyz"})
            for p2 in ("\\w+\\d.", "[^b]\\d"):
                s2 = own.generate(p2)
                ctx.count("custom_alphabet_generations")
                if not re.fullmatch(p2, s2):
                    ctx.violation("no_fullmatch:custom_alphabet", {"pattern": p2, "generated": s2})
        except Exception as e:  # noqa
            ctx.violation(f"custom_alphabet_generator_raised:{type(e).__name__}", {"exc": O.exc_info(e)})
    for max_repeat in (32, 3, 0, 100):
        rnd = G.Random()
        gen = G.RegexGenerator(rnd, max_repeat=max_repeat)
        probe = advrandom.Adversary("seeded", seed=rng.getrandbits(32))
        scheds = [("probe", probe)]
        first = True
        i = 0
        while i < len(scheds):
            name, adv = scheds[i]
            i += 1
            with advrandom.installed(adv):
                try:
                    s = gen.generate(pat)
                    exc = None
                except Exception as e:  # noqa
                    s, exc = None, e
            O._note_sites(ctx, adv)
            ctx.count("generate_calls")
            if first:
                first = False
                for nm, kw in advrandom.schedules(ctx.tier, adv.n, rng)[: (8 if ctx.tier == "quick" else 40)]:
                    scheds.append((nm, advrandom.Adversary(**kw)))
            judge(ctx, pat, rx, s, exc, unsupported, labels, f"max_repeat={max_repeat}/{name}")
    # through the schema
    try:
        sch = schema.str.regex(pat)
    except Exception as e:
        ctx.count("regex_declaration_refused")
        return
    for _ in range(2):
        G.Random().set_seed(rng.getrandbits(32))
        try:
            s = fake(sch)
            exc = None
        except Exception as e:  # noqa
            s, exc = None, e
        ctx.count("fake_calls")
        judge(ctx, pat, rx, s, exc, unsupported, labels, "fake")
        if exc is None and isinstance(s, str) and rx.fullmatch(s):
            res = validate(sch, s)
            if res.has_errors():
                ctx.violation("fake_value_rejected_by_own_schema", {"pattern": pat, "generated": s,
                                                                    "errors": [repr(e)[:200] for e in res.get_errors()]})


def judge(ctx, pat, rx, s, exc, unsupported, labels, how):
    if exc is not None:
        if unsupported:
            ctx.count("refused_loudly")
            for lb in labels:
                ctx.table("refusals", lb)
            return
        xi = O.exc_info(exc)
        ctx.violation(f"supported_pattern_raised:{xi['type']}", {"pattern": pat, "how": how, "exc": xi})
        return
    if not isinstance(s, str):
        ctx.violation("generated_not_str", {"pattern": pat, "how": how, "got": repr(s)[:100]})
        return
    ctx.count("fullmatch_evaluated")
    if rx.fullmatch(s) is None:
        ctx.violation("no_fullmatch:" + ("unsupported" if unsupported else "supported"),
                      {"pattern": pat, "generated": s[:300], "how": how, "unsupported": labels})
    elif unsupported:
        ctx.count("unsupported_but_matching")
        for lb in labels:
            ctx.table("unsupported_matched", lb)


def required(m, tier):
    c = m["counters"]
    out = []
    if c.get("fullmatch_evaluated", 0) == 0:
        out.append("re.fullmatch oracle never evaluated")
    if c.get("example_selfcheck_failed(harness)", 0) > 0.02 * max(1, c.get("example_selfcheck_ok", 0)):
        out.append("too many harness pattern/example self-check failures")
    ref = m["tables"].get("refusals", {})
    mt = m["tables"].get("unsupported_matched", {})
    if tier == "thorough":
        for _, lb in regexgen.UNSUPPORTED + [("", "backref"), ("", "named_backref"), ("", "conditional")]:
            if ref.get(lb, 0) + mt.get(lb, 0) == 0:
                out.append(f"unsupported construct {lb} never observed")
    if not m["extra"].get("draw_sites"):
        out.append("the adversarial RNG saw no draw")
    return out
