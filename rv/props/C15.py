"""C15 - schema equality is structural; schema == value means the value validates."""
import copy

from .. import oracles as O
from ..common import enc
from ..gen_spec import Profile, gen_spec
from ..gen_value import Unsat, OddValue, perturbations, witness, zoo
from ..ref import UNJUDGED, accepts
from ..spec import ELL, mk, nontrivial, shape, show, walk

LEVEL = "exploration"
RULE = ("cases = pools of generated specs, their independent rebuilds and every single-parameter variant (each declared prop "
        "changed/removed/added, one key added/removed/renamed, optional flag flipped, relaxed marker toggled, one element replaced / "
        "replaced by ... / ... replaced by a schema incl. schema.any, one alternative changed, alias target changed); oracle: "
        "reflexive, symmetric, transitive (sampled triples), rebuild-equal, != is the negation, equal => identical verdicts on probe "
        "values, variant with a distinguishing witness (value accepted by exactly one of the two specs per the reference, confirmed by the "
        "real validator) => unequal; schema == non-schema value <=> validates. Distinct by abstract base spec shape; non-trivial = "
        ">=1 constraint or nesting.")
ASSUMPTIONS = ["NaN-valued schemas excluded (== cannot be reflexive for nan)",
               "inequality is demanded only when a distinguishing witness exists"]
REACH_FILES = ['d42/declaration/_props.py', 'd42/validation/__init__.py', 'd42/declaration/types/_optional.py']
TIERS = {"quick": dict(shards=16, cases=6000), "thorough": dict(shards=16, cases=40000)}

PROF = Profile(max_depth=3, p_unsat=0.02, nonfinite=False, p_value=0.35, p_any_undeclared=0.4,
               kinds={"none": 2, "bool": 3, "int": 8, "float": 8, "str": 10, "list": 12, "dict": 9, "any": 8,
                      "bytes": 2, "uuid4": 2, "datetime": 2, "date": 2, "alias": 3})
LEAF = Profile(max_depth=0)


def set_at(spec, path, new):
    """Return a deep copy of spec with the node at `path` replaced by new."""
    if not path:
        return new
    s = copy.copy(spec)
    step = path[0]
    if step == "type":
        s["type"] = set_at(spec["type"], path[1:], new)
    elif step == "target":
        s["target"] = set_at(spec["target"], path[1:], new)
    else:
        kind, i = step
        if kind == "elem":
            s["elems"] = list(spec["elems"])
            s["elems"][i] = set_at(spec["elems"][i], path[1:], new)
        elif kind == "key":
            s["keys"] = list(spec["keys"])
            k, sub, opt = spec["keys"][i]
            s["keys"][i] = (k, set_at(sub, path[1:], new), opt)
        elif kind == "alt":
            s["types"] = list(spec["types"])
            s["types"][i] = set_at(spec["types"][i], path[1:], new)
    return s


def node_variants(n, rng):
    """Single-parameter variants of one node -> list of (new_node, label)."""
    out = []
    k = n["k"]

    def upd(label, **kw):
        m = dict(n)
        for a, b in kw.items():
            if b is None:
                m.pop(a, None)
            else:
                m[a] = b
        out.append((m, label))
    if k == "int":
        for f in ("value", "min", "max"):
            if n.get(f) is not None:
                upd(f"int.{f}+1", **{f: n[f] + 1})
                upd(f"int.{f}_removed", **{f: None})
        if n.get("value") is None:
            if n.get("min") is None:
                upd("int.min_added", min=-3)
            if n.get("max") is None:
                upd("int.max_added", max=9)
    elif k == "float":
        for f in ("value", "min", "max"):
            if n.get(f) is not None:
                upd(f"float.{f}_changed", **{f: n[f] + 1.5})
                upd(f"float.{f}_removed", **{f: None})
        if n.get("precision") is not None:
            upd("float.precision_changed", precision=n["precision"] % 15 + 1)
            upd("float.precision_removed", precision=None)
        else:
            upd("float.precision_added", precision=3)
    elif k == "bool":
        if n.get("value") is not None:
            upd("bool.value_flipped", value=not n["value"])
            upd("bool.value_removed", value=None)
        else:
            upd("bool.value_added", value=True)
    elif k == "str":
        if n.get("value") is not None:
            upd("str.value_changed", value=n["value"] + "x", len=None, alphabet=None, substr=None, pattern=None, examples=None)
            upd("str.value_removed", value=None)
        else:
            if n.get("len") is not None:
                lf = n["len"]
                upd("str.len_changed", len=(lf[0],) + tuple(x + 1 for x in lf[1:]))
                upd("str.len_removed", len=None)
                if lf[0] == "min":
                    upd("str.len_form_changed", len=("eq", lf[1]))
            elif n.get("pattern") is None:
                upd("str.len_added", len=("max", 3))
            if n.get("alphabet") is not None:
                upd("str.alphabet_changed", alphabet=n["alphabet"] + "Q")
                upd("str.alphabet_removed", alphabet=None)
            elif n.get("pattern") is None:
                upd("str.alphabet_added", alphabet="ab")
            if n.get("substr") is not None:
                upd("str.substr_removed", substr=None)
            if n.get("pattern") is not None:
                upd("str.pattern_removed", pattern=None, examples=None)
                upd("str.pattern_changed", pattern=n["pattern"] + "Z", examples=None)
    elif k in ("bytes", "uuid4", "datetime", "date"):
        if n.get("value") is not None:
            upd(f"{k}.value_removed", value=None)
    elif k == "list":
        f = n.get("form", "bare")
        if n.get("len") is not None:
            lf = n["len"]
            upd("list.len_removed", len=None)
            upd("list.len_changed", len=(lf[0],) + tuple(x + 1 for x in lf[1:]))
        elif f != "elems":
            upd("list.len_added", len=("max", 2))
        if f == "typed":
            upd("list.type_changed", type=mk("none"))
            upd("list.type_removed", form="bare", type=None)
        if f == "elems":
            els = n["elems"]
            for i, e in enumerate(els[:4]):
                if e == ELL:
                    m = list(els)
                    m[i] = mk("any")
                    upd("list.ellipsis_replaced_by_any", elems=m, len=None)
                    m = list(els)
                    m[i] = mk("int")
                    upd("list.ellipsis_replaced_by_schema", elems=m, len=None)
                else:
                    m = list(els)
                    m[i] = mk("none") if e["k"] != "none" else mk("bool")
                    upd("list.element_replaced", elems=m)
                    if (i == 0 or i == len(els) - 1) and len(els) >= 2 and ELL not in els:
                        m = list(els)
                        m[i] = ELL
                        upd("list.element_replaced_by_ellipsis", elems=m, len=None)
            if ELL not in els:
                upd("list.element_appended", elems=list(els) + [mk("none")], len=None)
                if els:
                    upd("list.element_removed", elems=list(els[:-1]), len=None)
    elif k == "dict" and n.get("keys") is not None:
        keys = n["keys"]
        for i, (key, sub, opt) in enumerate(keys[:4]):
            m = list(keys)
            m[i] = (key, sub, not opt)
            upd("dict.optional_flipped", keys=m)
            m = list(keys)
            del m[i]
            upd("dict.key_removed", keys=m)
            if isinstance(key, str) and not any(kk == key + "_r" for kk, _, _ in keys):
                m = list(keys)
                m[i] = (key + "_r", sub, opt)
                upd("dict.key_renamed", keys=m)
        if not any(kk == "zz_new" for kk, _, _ in keys):
            upd("dict.key_added", keys=list(keys) + [("zz_new", mk("int"), False)])
        upd("dict.relaxed_toggled", relaxed=None if n.get("relaxed") else True)
        if n.get("relaxed") and len(keys) >= 1:
            # the same declaration with the ...: ... entry written elsewhere: equal, and must validate identically
            pos = n.get("relaxed_pos")
            pos = len(keys) if pos is None else pos
            upd("dict.relaxed_marker_moved", relaxed_pos=(pos + 1) % (len(keys) + 1))
    elif k == "dict":
        upd("dict.declared_empty", keys=[])
    elif k == "any":
        if n.get("types") is not None:
            ts = n["types"]
            if len(ts) > 1:
                upd("any.alternative_removed", types=list(ts[:-1]))
            upd("any.alternative_added", types=list(ts) + [mk("bytes", value=b"zz")])
            m = list(ts)
            m[0] = mk("none") if ts[0]["k"] != "none" else mk("bool")
            upd("any.alternative_changed", types=m)
        else:
            upd("any.declared", types=[mk("int")])
    elif k == "alias":
        upd("alias.target_changed", target=mk("none") if n["target"]["k"] != "none" else mk("bool"))
        upd("alias.name_changed", name=str(n.get("name")) + "2")
    return out


def variants(spec, rng, cap):
    out = []
    nodes = list(walk(spec))
    rng.shuffle(nodes)
    for path, node in nodes:
        for new, label in node_variants(node, rng):
            out.append((set_at(spec, path, new), label))
            if len(out) >= cap:
                return out
    return out


def ell_as_any(spec):
    """Copy of a spec with every ... list marker replaced by schema.any (for classifying the known
    Ellipsis-vs-any blind spot of ==)."""
    if spec == ELL:
        return mk("any")
    s = dict(spec)
    if s.get("elems") is not None:
        s["elems"] = [ell_as_any(e) for e in s["elems"]]
        s.pop("len", None)
    if s.get("type") is not None:
        s["type"] = ell_as_any(s["type"])
    if s.get("target") is not None:
        s["target"] = ell_as_any(s["target"])
    if s.get("types") is not None:
        s["types"] = [ell_as_any(t) for t in s["types"]]
    if s.get("keys") is not None:
        s["keys"] = [(k, ell_as_any(sub), o) for k, sub, o in s["keys"]]
    return s


def any_like(n):
    """Accepts every value (so also the Nil / Ellipsis marker objects)."""
    if n == ELL:
        return False
    if n["k"] == "any":
        return n.get("types") is None or any(any_like(t) for t in n["types"])
    if n["k"] == "alias":
        return any_like(n["target"])
    return False


def blind_norm(spec):
    """Normal form modulo the known blind spot of == (F13): `...` markers become schema.any, and a typed list
    whose element type accepts everything becomes the bare list (absent prop vs a schema that accepts Nil)."""
    s = ell_as_any(spec)

    def rec(n):
        if n == ELL:
            return n
        if any_like(n):
            return mk("any")   # every accept-everything schema "equals" a marker through the same fallback
        m = dict(n)
        m.pop("relaxed_pos", None)   # where ...: ... is written is not part of the meaning (dict == ignores key order)
        if m["k"] == "list" and m.get("form") == "typed" and any_like(m["type"]):
            m.pop("type")
            m["form"] = "bare"
        if m.get("elems") is not None:
            m["elems"] = [rec(e) for e in m["elems"]]
        if m.get("type") is not None:
            m["type"] = rec(m["type"])
        if m.get("target") is not None:
            m["target"] = rec(m["target"])
        if m.get("types") is not None:
            m["types"] = [rec(t) for t in m["types"]]
        if m.get("keys") is not None:
            m["keys"] = [(k, rec(sub), o) for k, sub, o in m["keys"]]
        return m
    return rec(s)


def same_modulo_blindspot(*specs):
    from ..decode import normalise, spec_eq
    ns = [normalise(blind_norm(x)) for x in specs]
    return all(spec_eq(ns[0], n) for n in ns[1:])


def only_ellipsis_vs_any(a, b):
    """The two specs differ, but only by marker-vs-accept-everything-schema differences (finding F13):
    `...` vs schema.any in an element list and/or an absent list type vs a type that accepts everything."""
    from ..decode import normalise, spec_eq

    def strip(n):
        if n == ELL:
            return n
        m = {k: v for k, v in n.items() if k != "relaxed_pos"}
        for f in ("type", "target"):
            if m.get(f) is not None:
                m[f] = strip(m[f])
        if m.get("elems") is not None:
            m["elems"] = [strip(e) for e in m["elems"]]
        if m.get("types") is not None:
            m["types"] = [strip(t) for t in m["types"]]
        if m.get("keys") is not None:
            m["keys"] = [(k, strip(sub), o) for k, sub, o in m["keys"]]
        return m
    if spec_eq(normalise(strip(a)), normalise(strip(b))):
        return False      # same declaration (possibly with ...: ... written elsewhere): not the blind spot
    return same_modulo_blindspot(a, b)


def distinguishing_witness(ctx, a, b, sa, sb, rng):
    """A value accepted by exactly one of the specs per the reference, confirmed by the real validator."""
    cands = []
    for s in (a, b):
        for mode in ("rand", "min", "max"):
            try:
                cands.append(witness(s, rng, mode))
            except Unsat:
                break
    extra = []
    for w in cands[:3]:
        ps = list(perturbations(w, rng, a))
        if len(ps) > 25:
            ps = rng.sample(ps, 25)
        extra.extend(p for p, _ in ps)
    for w in cands + extra:
        ra, rb = accepts(a, w), accepts(b, w)
        if ra is UNJUDGED or rb is UNJUDGED or ra == rb:
            continue
        ea, xa = O.real_validate(sa, w)
        eb, xb = O.real_validate(sb, w)
        if xa is not None or xb is not None:
            continue
        if (not ea) == ra and (not eb) == rb:
            return True, w
    return False, None


def probe_values(spec, rng):
    vals = []
    for mode in ("rand", "min", "max"):
        try:
            vals.append(witness(spec, rng, mode))
        except Unsat:
            break
    for w in list(vals[:2]):
        ps = list(perturbations(w, rng, spec))
        if len(ps) > 12:
            ps = rng.sample(ps, 12)
        vals.extend(p for p, _ in ps)
    vals += [None, 0, "", [], {}, OddValue()]
    return vals


def run_case(ctx, rng, case):
    from d42.declaration.types import Schema
    base = gen_spec(rng, PROF)
    s1 = O.try_build(ctx, base)
    if s1 is None:
        return
    s2 = O.try_build(ctx, copy.deepcopy(base))
    ctx.distinct(shape(base), nontrivial(base))
    info = {"spec": show(base), "repr": repr(s1)[:300]}
    if case % 500 == 0:
        ctx.sample(info)

    def eq(a, b):
        return a == b

    # reflexive / rebuild / negation
    try:
        ctx.count("law_checks", 4)
        if not eq(s1, s1):
            ctx.violation("not_reflexive", info)
        if not (eq(s1, s2) and eq(s2, s1)):
            ctx.violation("independent_rebuild_not_equal", info)
        if (s1 != s2) or (s1 != s1):
            ctx.violation("ne_is_not_negation_of_eq", info)
    except Exception as e:  # noqa
        ctx.violation("eq_raised", {**info, "exc": O.exc_info(e)})
        return
    pool = [(base, s1, "base")]
    for vs, label in variants(base, rng, 14 if ctx.tier == "quick" else 40):
        b = O.try_build(ctx, vs)
        if b is not None:
            pool.append((vs, b, label))
    other = gen_spec(rng, PROF, depth=rng.randint(0, 2))
    ob = O.try_build(ctx, other)
    if ob is not None:
        pool.append((other, ob, "unrelated"))
    probes_cache = {}
    n = len(pool)
    eqm = [[None] * n for _ in range(n)]
    for i in range(n):
        for j in range(n):
            try:
                e_ij = bool(pool[i][1] == pool[j][1])
                ne_ij = bool(pool[i][1] != pool[j][1])
            except Exception as e:  # noqa
                ctx.violation("eq_raised", {**info, "a": repr(pool[i][1])[:200], "b": repr(pool[j][1])[:200],
                                            "exc": O.exc_info(e)})
                return
            eqm[i][j] = e_ij
            ctx.count("pairs_compared")
            if e_ij == ne_ij:
                ctx.violation("ne_is_not_negation_of_eq", {**info, "a": repr(pool[i][1])[:200], "b": repr(pool[j][1])[:200]})
    for i in range(n):
        if not eqm[i][i]:
            ctx.violation("not_reflexive", {**info, "a": repr(pool[i][1])[:200]})
        for j in range(i + 1, n):
            if eqm[i][j] != eqm[j][i]:
                ctx.violation("not_symmetric", {**info, "a": repr(pool[i][1])[:200], "b": repr(pool[j][1])[:200],
                                                "a==b": eqm[i][j], "b==a": eqm[j][i], "variant": pool[j][2]})
            if eqm[i][j] or eqm[j][i]:
                # equal schemas must give identical verdicts on every probe value
                ctx.count("equal_pairs_probed")
                vals = probes_cache.get(i)
                if vals is None:
                    vals = probes_cache[i] = probe_values(pool[i][0], rng)
                for v in vals:
                    ei, xi = O.real_validate(pool[i][1], v)
                    ej, xj = O.real_validate(pool[j][1], v)
                    if xi is not None or xj is not None:
                        continue
                    if bool(ei) != bool(ej):
                        ctx.violation("equal_schemas_different_verdicts", {
                            **info, "a": repr(pool[i][1])[:300], "b": repr(pool[j][1])[:300], "value": enc(v),
                            "variant": pool[j][2] if i == 0 else pool[i][2],
                            "only_ellipsis_vs_any": only_ellipsis_vs_any(pool[i][0], pool[j][0])})
                        break
    # transitivity on the pool
    for i in range(n):
        for j in range(n):
            if i != j and eqm[i][j]:
                for k in range(n):
                    if k != i and k != j and eqm[j][k] and not eqm[i][k]:
                        ctx.violation("not_transitive", {
                            **info, "a": repr(pool[i][1])[:150], "b": repr(pool[j][1])[:150], "c": repr(pool[k][1])[:150],
                            "equal_links_only_via_marker_blindspot":
                                same_modulo_blindspot(pool[i][0], pool[j][0]) and same_modulo_blindspot(pool[j][0], pool[k][0])})
    ctx.count("transitivity_checked")
    # variants with a distinguishing witness must be unequal to the base
    for idx in range(1, n):
        vs, vb, label = pool[idx]
        if label == "unrelated":
            continue
        ok, w = distinguishing_witness(ctx, base, vs, s1, vb, rng)
        if not ok:
            ctx.count("variants_without_witness")
            continue
        ctx.count("variants_with_witness")
        ctx.table("variant_classes", label)
        if eqm[0][idx] or eqm[idx][0]:
            ctx.violation("distinguishable_variant_compares_equal", {
                **info, "variant": label, "variant_repr": repr(vb)[:300], "witness": enc(w),
                "base_accepts": accepts(base, w), "variant_accepts": accepts(vs, w),
                "only_ellipsis_vs_any": only_ellipsis_vs_any(base, vs)})
    derived_after_comparison(ctx, rng, base, s1, info)
    # schema == non-schema value  <=>  validates
    z = zoo()
    z.pop("big_str", None)
    z.pop("rec_list", None)
    z.pop("rec_dict", None)
    names = rng.sample(sorted(z), 6)
    vals = [z[nm] for nm in names] + probe_values(base, rng)[:12]
    for v in vals:
        if isinstance(v, Schema):
            continue
        errs, exc = O.real_validate(s1, v)
        if exc is not None:
            continue
        try:
            a = bool(s1 == v)
            na = bool(s1 != v)
        except Exception as e:  # noqa
            ctx.violation("eq_value_raised", {**info, "value": enc(v), "exc": O.exc_info(e)})
            continue
        ctx.count("value_comparisons")
        if a != (not errs) or na == a:
            ctx.violation("schema_eq_value_differs_from_validation", {**info, "value": enc(v), "eq": a, "ne": na,
                                                                      "validates": not errs})


def derivations(spec, rng):
    """(label, function schema -> schema) pairs that derive a new schema from an existing object through the public
    operations that go through Props.set / Props.update."""
    from d42 import schema
    from d42.utils import make_required
    from ..gen_subst import is_plain
    out = []
    try:
        w = witness(spec, rng)
        if is_plain(w) and w == w:
            out.append(("subst", lambda s: s % w))
    except Unsat:
        pass
    k = spec.get("k")
    if k == "dict" and spec.get("keys") is not None:
        out.append(("plus", lambda s: s + schema.dict({"rv_new_key": schema.int})))
        out.append(("make_required", lambda s: make_required(s)))
    if k in ("int", "float") and spec.get("value") is None:
        big = 10 ** 40 if k == "int" else 1e300
        if spec.get("max") is None:
            out.append(("max", lambda s: s.max(big)))
        if spec.get("min") is None:
            out.append(("min", lambda s: s.min(-big)))
    if k == "str" and all(spec.get(x) is None for x in ("value", "len", "pattern")):
        out.append(("len", lambda s: s.len(0, ...)))
    if k == "list" and spec.get("len") is None:
        out.append(("len", lambda s: s.len(0, ...)))
    return out


def derived_after_comparison(ctx, rng, base, s1, info):
    """Equality must not depend on what an operand (or the object it was derived from) has been compared with before:
    the same derivation applied to s1 - compared many times above - and to a fresh, never compared build of the same
    spec must give equal schemas that stand in the same relation to their origins."""
    for label, fn in derivations(base, rng):
        fresh = O.try_build(ctx, copy.deepcopy(base))
        if fresh is None:
            return

        def run(s):
            try:
                return fn(s), None
            except Exception as e:  # noqa
                return None, e
        (d1, x1), (d2, x2) = run(s1), run(fresh)
        ctx.count("derivations_after_comparison")
        ctx.table("derivations", label)
        if x1 is not None or x2 is not None:
            if type(x1) is not type(x2):
                ctx.violation("derivation_outcome_depends_on_history", {**info, "derivation": label,
                                                                        "compared": repr(x1)[:150], "fresh": repr(x2)[:150]})
            continue
        try:
            e12, e21, ne = bool(d1 == d2), bool(d2 == d1), bool(d1 != d2)
            r1, r2 = bool(d1 == s1), bool(d2 == fresh)
            r1b, r2b = bool(s1 == d1), bool(fresh == d2)
        except Exception as e:  # noqa
            ctx.violation("eq_raised", {**info, "derivation": label, "exc": O.exc_info(e)})
            continue
        if not (e12 and e21) or ne:
            ctx.violation("same_derivation_of_equal_schemas_not_equal", {
                **info, "derivation": label, "derived_from_compared": repr(d1)[:200], "derived_from_fresh": repr(d2)[:200],
                "d1==d2": e12, "d2==d1": e21})
        if r1 != r2 or r1b != r2b:
            ctx.violation("eq_with_origin_depends_on_comparison_history", {
                **info, "derivation": label, "derived": repr(d1)[:200], "derived==origin (compared before)": [r1, r1b],
                "derived==origin (fresh)": [r2, r2b]})
        for v in probe_values(base, rng)[:6]:
            ea, xa = O.real_validate(d1, v)
            eb, xb = O.real_validate(d2, v)
            if xa is None and xb is None and bool(ea) != bool(eb):
                ctx.violation("equal_schemas_different_verdicts", {**info, "derivation": label, "value": enc(v),
                                                                   "a": repr(d1)[:200], "b": repr(d2)[:200],
                                                                   "only_ellipsis_vs_any": False})
                break


def required(m, tier):
    c = m["counters"]
    out = []
    for k in ("pairs_compared", "variants_with_witness", "equal_pairs_probed", "value_comparisons"):
        if c.get(k, 0) == 0:
            out.append(f"oracle counter {k} is zero")
    return out
