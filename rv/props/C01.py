"""C01 - generated data always validates against its own schema (adversarial-RNG monitor)."""
from .. import decode as dec
from .. import oracles as O
from ..combine import merge_spec, required_spec, union_spec
from ..common import enc
from ..gen_spec import Profile, gen_declared_dict, gen_spec
from ..gen_value import Unsat, prune_unsat, unsat_members, witness
from ..ref import UNJUDGED, accepts
from ..spec import nontrivial, shape, show, walk, list_form, len_bounds

LEVEL = "exploration"
RULE = ("cases = random specs (13 kinds, nesting<=3, value+constraint combos, all ellipsis list forms x len forms, bounds "
        "beyond the generator defaults, precision grids) plus schemas derived with |, +, make_required and S % witness; "
        "a case is in the domain only if the harness's independent generator produces a witness that reference and real "
        "validator accept; each in-domain schema is generated from under adversarial RNG schedules (all-lo, all-hi, mid, "
        "seeded, scripted per-draw extremes; exhaustive {lo,hi}^n for n<=6 in thorough) and through the real d42.fake; "
        "every produced value goes to the real validate. Distinct by abstract spec shape; non-trivial = >=1 constraint "
        "or nesting level.")
ASSUMPTIONS = ["satisfiability is decided constructively by rv/gen_value.witness (a spec without witness is skipped, counted)",
               "pattern-carrying strs use the C09 supported grammar only",
               "a disagreement between validate and the reference on a generated value is attributed to C02"]
REACH_FILES = ['d42/generation/_generator.py', 'd42/generation/_random.py', 'd42/generation/_regex_generator.py']
TIERS = {"quick": dict(shards=16, cases=12000), "thorough": dict(shards=16, cases=60000)}

PROF = Profile(max_depth=3, p_unsat=0.04, wrap=0.04)


def features(spec):
    """Facts about the spec used to describe (and classify) a witness."""
    f = set()
    for _, s in walk(spec):
        k = s["k"]
        if k == "int":
            if (s.get("min") is not None and s["min"] > 2 ** 63 - 1 and s.get("max") is None) or \
               (s.get("max") is not None and s["max"] < -(2 ** 63) and s.get("min") is None):
                f.add("int_bound_beyond_default")
        if k == "float":
            if s.get("precision") is not None and s.get("value") is None and \
                    (s.get("min") is not None or s.get("max") is not None):
                f.add("float_precision_with_bounds")
                if s.get("min") is not None and s.get("max") is not None and \
                        grid_empty(s["min"], s["max"], s["precision"]):
                    f.add("float_grid_empty")
            if (s.get("min") is not None and s["min"] > float(2 ** 63 - 1) and s.get("max") is None) or \
               (s.get("max") is not None and s["max"] < float(-(2 ** 63)) and s.get("min") is None):
                f.add("float_bound_beyond_default")
        if k == "str" and s.get("value") is None and s.get("pattern") is None:
            lo, hi = len_bounds(s.get("len"))
            if hi is None and lo > 32:
                f.add("str_minlen_beyond_default")
            if s.get("alphabet") == "":
                f.add("empty_alphabet")
        if k == "list":
            form, els = list_form(s)
            lo, hi = len_bounds(s.get("len"))
            if form in ("typed", "untyped") and hi is None and lo > 16:
                f.add("list_minlen_beyond_default")
            if form in ("head", "tail", "contains") and s.get("len") is not None and lo > len(els):
                f.add("ellipsis_list_len_gt_elements")
    return sorted(f)


def derive(ctx, rng, case):
    """-> (spec_for_reference | None, schema, how) or None"""
    from d42.utils import make_required
    r = rng.random()
    if r < 0.62:
        spec = gen_spec(rng, PROF)
        from .. import custom
        schema = O.try_build(ctx, spec, wrapper=custom.wrap)   # a few nodes are forwarding custom types
        return None if schema is None else (spec, schema, "dsl")
    if r < 0.72:
        a, b = gen_spec(rng, PROF, depth=rng.randint(0, 2)), gen_spec(rng, PROF, depth=rng.randint(0, 2))
        sa, sb = O.try_build(ctx, a), O.try_build(ctx, b)
        if sa is None or sb is None:
            return None
        return union_spec(a, b), sa | sb, "union"
    if r < 0.80:
        d1, d2 = gen_declared_dict(rng, PROF, depth=rng.randint(1, 2)), gen_declared_dict(rng, PROF, depth=rng.randint(1, 2))
        s1, s2 = O.try_build(ctx, d1), O.try_build(ctx, d2)
        if s1 is None or s2 is None:
            return None
        return merge_spec(d1, d2), s1 + s2, "plus"
    if r < 0.85:
        d = gen_declared_dict(rng, PROF, depth=rng.randint(1, 2))
        s = O.try_build(ctx, d)
        if s is None:
            return None
        return required_spec(d, None), make_required(s), "make_required"
    # substitution result
    from d42 import substitute
    from d42.substitution.errors import SubstitutionError
    spec = gen_spec(rng, PROF)
    schema = O.try_build(ctx, spec)
    if schema is None:
        return None
    try:
        # also values sitting exactly on a bound / at an extreme length: pinning must keep them generatable
        v = witness(spec, rng, rng.choice(("rand", "min", "min", "max")))
    except Unsat:
        ctx.count("unsat_skipped")
        return None
    v0 = v
    if isinstance(v, list) and rng.random() < 0.35:
        # partial list values with a ... placeholder: the result is an ellipsis element list that keeps the
        # original length constraints (a state declaration cannot reach)
        k = rng.randint(0, len(v))
        variants = [v[:k] + [...], [...] + v[k:], [...] + v[k:k + 1] + [...] if v[k:k + 1] else v[:k] + [...]]
        if v:
            # one end *replaced* by the placeholder: the value keeps its length (it may sit exactly on a length bound)
            # while the number of concrete elements drops below it
            variants += [v[:-1] + [...], [...] + v[1:], v[:-1] + [...], [...] + v[1:]]
            if len(v) >= 3:
                variants.append([...] + v[1:-1] + [...])
        v = rng.choice(variants)
    try:
        res = substitute(schema, v)
    except SubstitutionError:
        ctx.count("substitution_refused")
        return None
    except Exception:
        ctx.count("substitute_raised(C12)")
        return None
    errs, exc = O.real_validate(res, v0)
    if exc is not None or errs:
        ctx.count("subst_result_rejects_value(C04)")
        return None
    try:
        rspec = dec.inherit_examples(dec.decode(res), spec)
    except dec.DecodeError:
        rspec = None
    return rspec, res, "substituted"


def grid_empty(lo, hi, p):
    """No float of the form n / 10**p lies inside [lo, hi] (exact for narrow intervals)."""
    from fractions import Fraction
    import math
    scale = 10 ** p
    if not (math.isfinite(lo) and math.isfinite(hi)) or lo > hi:
        return False
    if Fraction(hi) - Fraction(lo) > Fraction(2, scale):
        return False
    n0 = math.floor(Fraction(lo) * scale)
    return not any(lo <= n / scale <= hi for n in range(n0 - 2, n0 + 4))


def setup(ctx):
    """A second generator with its own alphabets and cap, built and used before anything else (public API): the default
    generator behind fake() must be unaffected by it."""
    from ..common import mod
    G = mod("d42.generation")
    rg = G.RegexGenerator(G.Random(), alphabet={"letters": "ab", "digits": "01", "word": "xy_"}, max_repeat=2)
    rg.generate("a.\\d\\w[^a]b*")
    g = G.Generator(G.Random(), rg)
    from d42 import schema
    schema.list(schema.str.regex("\\d\\w")).__accept__(g)
    ctx.count("foreign_generators_built")


def run_case(ctx, rng, case):
    d = derive(ctx, rng, case)
    if d is None:
        return
    spec, schema, how = d
    ctx.table("derivation", how)
    um = []
    if spec is not None:
        try:
            witness(spec, rng)
        except Unsat:
            ctx.count("unsat_skipped")
            return
        um = unsat_members(spec, rng)
    judge(ctx, rng, case, spec, schema, how, bool(um))
    if um:
        # the same shape with the unsatisfiable members pruned is judged without any allowance
        ctx.count("has_unsat_member")
        pruned = prune_unsat(spec, rng)
        if pruned is not None and not unsat_members(pruned, rng):
            ps = O.try_build(ctx, pruned)
            if ps is not None:
                judge(ctx, rng, case, pruned, ps, how + "+pruned", False)


def judge(ctx, rng, case, spec, schema, how, unsat_member):
    # domain: satisfiable (constructive witness accepted by reference and by the real validator)
    if spec is not None:
        try:
            w0 = witness(spec, rng)
        except Unsat:
            ctx.count("unsat_skipped")
            return
        r0 = accepts(spec, w0)
        if r0 is not True:
            ctx.count("witness_not_confirmed")
            return
        errs, exc = O.real_validate(schema, w0)
        if exc is not None or errs:
            ctx.count("witness_rejected_by_validator(C02)")
            return
        ctx.distinct(shape(spec), nontrivial(spec))
    else:
        ctx.distinct(["undecodable", how, case], True)
    ctx.count("in_domain")
    feats = features(spec) if spec is not None else []
    if case % 500 == 0:
        ctx.sample({"how": how, "repr": repr(schema)[:400], "features": feats})
    for name, w, exc in O.generate_all(ctx, schema, rng, real_runs=2,
                                       max_sched=12 if ctx.tier == "quick" else 60):
        sched_class = name.rstrip("0123456789") if not name.startswith("x") else "exhaustive"
        if exc is not None:
            xi = O.exc_info(exc)
            ctx.violation(f"fake_raised:{xi['type']}", {
                "how": how, "repr": repr(schema)[:400], "spec": show(spec) if spec else None, "schedule": name,
                "exc": xi, "features": feats, "unsat_member": unsat_member})
            continue
        ctx.count("generated_values")
        ctx.table("schedule_classes", sched_class)
        errs, vexc = O.real_validate(schema, w)
        if vexc is not None:
            ctx.violation("validate_raised_on_generated", {"how": how, "repr": repr(schema)[:400], "value": enc(w),
                                                           "exc": O.exc_info(vexc), "schedule": name})
            continue
        if errs:
            ctx.violation("generated_value_rejected:" + type(errs[0]).__name__, {
                "how": how, "repr": repr(schema)[:400], "spec": show(spec) if spec else None, "schedule": name,
                "value": enc(w), "errors": [repr(e)[:200] for e in errs[:3]], "features": feats,
                "error_kinds": sorted({type(e).__name__ for e in errs}), "unsat_member": unsat_member})
        elif spec is not None:
            r = accepts(spec, w)
            if r is False:
                ctx.count("validator_accepts_but_reference_rejects(C02)")


def required(m, tier):
    c = m["counters"]
    out = []
    if c.get("generated_values", 0) == 0:
        out.append("no value was generated")
    sites = m["extra"].get("draw_sites", {})
    if not sites:
        out.append("the adversarial RNG saw no draw (d42 may draw from another source)")
    if tier == "thorough":
        for site, modes in sites.items():
            if not ({"lo", "hi"} <= set(modes)) and "empty" not in modes:
                out.append(f"draw site {site} not seen at both extremes")
    return out
