"""C19 - v1-to-v2 migration rewrites imports and nothing else."""
import ast
import importlib
from collections import Counter

from .. import pygen
from ..common import case_rng

LEVEL = "exploration"
RULE = ("Part A (exhaustive): every (module, name) target of the mapping table is imported with importlib + getattr. Part B: "
        "programs = Python modules assembled from import forms (single-line, parenthesised multi-line, backslash continuation, "
        "aliased, star, relative, __future__, mixed mapped/unmapped names and modules, every mapped name at least once per run, "
        "the same name twice) interleaved with arbitrary other statements (assignments, defs/classes/if/try/for/with blocks "
        "containing nested imports, docstrings and multi-line strings that look like imports, comments, decorators), several "
        "statements on one physical line, CRLF / lone CR line ends, form feed and other str.splitlines-only break characters "
        "inside strings and comments, tabs, missing trailing newline, empty module, non-ASCII identifiers; oracle: AST comparison "
        "of input and output (non-import statements unchanged and in order; each top-level absolute from-import replaced by a "
        "group of from-imports with exactly the expected (module, name, local name) bindings). Part C: every 25th module also goes "
        "through migrate_v1_to_v2 on a directory (file rewritten in place, hidden / __pycache__ / non-.py files untouched). Distinct by (feature set, statement "
        "kinds sequence); non-trivial = >=1 top-level from-import.")
ASSUMPTIONS = ["comments and layout are not statements and are not compared",
               "the AST of the input (ast.parse) defines what the statements of the module are"]
REACH_FILES = ['d42/migration/migrate_v1_to_v2.py']
TIERS = {"quick": dict(shards=16, cases=30000), "thorough": dict(shards=16, cases=200000)}


def bindings_expected(node, mapping):
    out = []
    module = node.module
    for a in node.names:
        local = a.asname or a.name
        if module in mapping and a.name in mapping[module]:
            nm, nn = mapping[module][a.name]
            out.append((nm, nn, local))
        else:
            out.append((module, a.name, local))
    return Counter(out)


def bindings_of(node):
    return Counter((node.module, a.name, a.asname or a.name) for a in node.names)


def is_top_from(node):
    return isinstance(node, ast.ImportFrom) and node.level == 0


def compare(src, out, mapping):
    """-> None if the output is the expected rewrite of src, else (kind, info)."""
    tin = ast.parse(src)
    try:
        tout = ast.parse(out)
    except SyntaxError as e:
        return "output_does_not_parse", {"error": str(e)[:150]}
    ob = tout.body
    j = 0
    for idx, st in enumerate(tin.body):
        if is_top_from(st):
            want = bindings_expected(st, mapping)
            got = Counter()
            consumed = 0
            while j < len(ob) and is_top_from(ob[j]) and got != want:
                nb = bindings_of(ob[j])
                if any(got[b] + c > want.get(b, 0) for b, c in nb.items()):
                    break
                got += nb
                j += 1
                consumed += 1
            if got != want:
                return "import_bindings_differ", {"statement_index": idx, "input": ast.unparse(st),
                                                  "expected": sorted(map(str, want.elements())),
                                                  "got": sorted(map(str, got.elements())),
                                                  "next_output": ast.unparse(ob[j]) if j < len(ob) else None}
        else:
            if j >= len(ob):
                return "statement_lost", {"statement_index": idx, "input": ast.unparse(st)[:200],
                                          "kind": type(st).__name__}
            if ast.dump(ob[j]) != ast.dump(st):
                return "statement_changed_or_lost", {"statement_index": idx, "input": ast.unparse(st)[:200],
                                                     "output": ast.unparse(ob[j])[:200], "kind": type(st).__name__}
            j += 1
    if j != len(ob):
        return "extra_statements_in_output", {"extra": [ast.unparse(x)[:120] for x in ob[j:j + 3]]}
    return None


def shares_line(tree, src):
    """Does a top-level from-import share a physical line with another top-level statement?"""
    spans = [(s.lineno, s.end_lineno, is_top_from(s)) for s in tree.body]
    for i, (a, b, imp) in enumerate(spans):
        for k, (c, d, imp2) in enumerate(spans):
            if i != k and (imp or imp2) and not (b < c or d < a):
                return True
    return False


def has_splitlines_only_break(src):
    """Characters on which str.splitlines breaks a line but the tokenizer does not."""
    return any(ch in src for ch in "\x0b\x0c\x1c\x1d\x1e\x85\u2028\u2029")


def part_a(ctx):
    m = pygen.mapping()
    total = 0
    for old_mod, names in m.items():
        for old_name, (new_mod, new_name) in names.items():
            total += 1
            ctx.count("mapping_targets_checked")
            try:
                mod = importlib.import_module(new_mod)
                getattr(mod, new_name)
            except Exception as e:  # noqa
                ctx.violation("mapping_target_not_importable", {"old": f"{old_mod}.{old_name}", "new": f"{new_mod}.{new_name}",
                                                                "exc": f"{type(e).__name__}: {str(e)[:120]}"})
    ctx.extra["mapping_size"] = total


def run_shard(ctx):
    from d42.migration.migrate_v1_to_v2 import rewrite_imports
    m = pygen.mapping()
    if ctx.shard == 0 and (ctx.only is None or ctx.only == -1):
        ctx.case = -1
        part_a(ctx)
    all_names = [(mod, n) for mod, names in sorted(m.items()) for n in sorted(names)]
    total = ctx.params["cases"]
    ids = range(ctx.shard, total, ctx.nshards) if ctx.only is None else ([ctx.only] if ctx.only >= 0 else [])
    for case in ids:
        ctx.case = case
        ctx.count("evaluations")
        rng = case_rng(ctx.seed, "C19", 0, case)
        force = all_names[case % len(all_names)] if case < 3 * len(all_names) else None
        src, feats = pygen.gen_module(rng, m, force)
        try:
            tree = ast.parse(src)
        except (SyntaxError, ValueError):
            ctx.count("generated_module_invalid(harness)")
            continue
        n_imports = sum(1 for s in tree.body if is_top_from(s))
        has_mapped = any(is_top_from(s) and s.module in m and any(a.name in m[s.module] for a in s.names) for s in tree.body)
        kinds = [type(s).__name__ for s in tree.body]
        ctx.distinct([sorted(feats), kinds], n_imports >= 1)
        for f in feats:
            ctx.table("features", f)
        if force:
            ctx.table("mapped_names_used", f"{force[0]}.{force[1]}")
        sl = shares_line(tree, src)
        odd = has_splitlines_only_break(src)
        info = {"source": src[:1500], "features": sorted(feats), "shares_line": sl, "splitlines_only_break_char": odd}
        if case % 1500 == 0:
            ctx.sample({"source": src[:600], "features": sorted(feats)})
        ctx.count("rewrites")
        try:
            out = rewrite_imports(src, m)
        except Exception as e:  # noqa
            ctx.violation(f"rewrite_raised:{type(e).__name__}", {**info, "exc": f"{type(e).__name__}: {str(e)[:150]}"})
            continue
        if out is None:
            ctx.count("nothing_to_do")
            if has_mapped:
                ctx.violation("reports_nothing_to_do_despite_mapped_import", info)
            continue
        ctx.count("rewritten")
        if not isinstance(out, str):
            ctx.violation("rewrite_returned_non_text", {**info, "got": repr(out)[:80]})
            continue
        ctx.table("neighbourhood", f"shares_line={sl}|odd_char={odd}")
        res = compare(src, out, m)
        if res is not None:
            kind, extra = res
            ctx.violation(kind, {**info, **extra, "output": out[:1500]})
        else:
            ctx.count("rewrites_as_expected")
        if case % 25 == 0:
            end_to_end(ctx, src, m, info)


def end_to_end(ctx, src, m, info):
    """Part C: the same module through the file-level entry points (process_file / migrate_v1_to_v2 on a directory)."""
    import os
    import tempfile
    from d42.migration.migrate_v1_to_v2 import migrate_v1_to_v2
    import contextlib
    import io
    with tempfile.TemporaryDirectory(prefix="rv_c19_") as td:
        os.makedirs(os.path.join(td, "pkg", ".hidden"))
        os.makedirs(os.path.join(td, "pkg", "__pycache__"))
        paths = {"mod": os.path.join(td, "pkg", "mod.py"), "hidden": os.path.join(td, "pkg", ".hidden", "h.py"),
                 "cache": os.path.join(td, "pkg", "__pycache__", "c.py"), "txt": os.path.join(td, "pkg", "notes.txt")}
        for pth in paths.values():
            with open(pth, "w", encoding="utf-8", newline="") as f:
                f.write(src)
        buf = io.StringIO()
        try:
            with contextlib.redirect_stdout(buf):
                migrate_v1_to_v2(td)
        except Exception as e:  # noqa
            ctx.violation(f"migrate_directory_raised:{type(e).__name__}", {**info, "exc": str(e)[:150]})
            return
        ctx.count("end_to_end_runs")
        if "Error processing" in buf.getvalue():
            ctx.violation("migrate_directory_reported_error", {**info, "stdout": buf.getvalue()[:300]})
            return
        for name in ("hidden", "cache", "txt"):
            with open(paths[name], encoding="utf-8", newline="") as f:
                if f.read() != src:
                    ctx.violation("file_outside_scope_modified", {**info, "which": name})
        with open(paths["mod"], encoding="utf-8", newline="") as f:
            after = f.read()
        if after == src:
            return
        try:
            res = compare(src, after, m)
        except SyntaxError as e:
            res = ("output_does_not_parse", {"error": str(e)[:120]})
        if res is not None:
            ctx.violation("file_level:" + res[0], {**info, **res[1], "file_after": after[:800]})


def required(m, tier):
    c = m["counters"]
    out = []
    if c.get("mapping_targets_checked", 0) == 0:
        out.append("part A did not run")
    if c.get("rewrites_as_expected", 0) == 0:
        out.append("no rewrite matched the expectation (oracle suspicious)")
    if c.get("nothing_to_do", 0) == 0:
        out.append("'nothing to do' outcome never observed")
    if c.get("generated_module_invalid(harness)", 0) > 0.05 * max(1, c.get("evaluations", 1)):
        out.append("too many invalid generated modules")
    used = m["tables"].get("mapped_names_used", {})
    size = m["extra"].get("mapping_size", 0)
    if size and len(used) < size:
        out.append(f"only {len(used)} of {size} mapped names were used")
    return out
