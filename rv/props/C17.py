"""C17 - seeded generation is reproducible (cross-configuration differential monitor)."""
import json
import os
import subprocess
import sys

from ..common import REPO, VERIF

LEVEL = "exploration"
RULE = ("cases = (seed k of kind int/negative/huge/str/bytes/float, sequence of 1-10 schemas weighted to everything that draws: "
        "int/float/precision, str with alphabet/contains/len, regex patterns from the C09 grammar incl. negated classes and [^x], "
        "lists, dicts, unions, bytes; no unfixed uuid4/datetime/date); each case runs in child interpreters with different "
        "PYTHONHASHSEED (quick 0,1,2; thorough 0,1,2,4242,random x2): set_seed(k), fake over the sequence, re-seed through a second "
        "Random() instance, fake again; oracle: the two in-process passes agree, and all configurations agree position by position "
        "(tagged encodings, floats by hex). Distinct by (seed kind, schema reprs); non-trivial = >=1 schema that draws.")
ASSUMPTIONS = ["the harness's own case generator is hash-seed independent (self-check: schema reprs must agree across configurations, else inconclusive)"]
TIERS = {"quick": dict(shards=16, cases=4000, hashseeds=["0", "1", "2"]),
         "thorough": dict(shards=16, cases=40000, hashseeds=["0", "1", "2", "4242", "random", "random"])}


def run_children(ctx, ids):
    out = {}
    for idx, hs in enumerate(ctx.params["hashseeds"]):
        env = dict(os.environ, PYTHONHASHSEED=hs, PYTHONDONTWRITEBYTECODE="1",
                   PYTHONPATH=REPO + os.pathsep + VERIF)
        cmd = [sys.executable, "-m", "rv.c17child", str(ctx.seed)] + [str(i) for i in ids]
        try:
            r = subprocess.run(cmd, cwd=VERIF, env=env, capture_output=True, text=True, timeout=240 if ctx.tier == "quick" else 1800)
        except subprocess.TimeoutExpired:
            ctx.count("child_failed")
            continue
        if r.returncode != 0:
            ctx.count("child_failed")
            ctx.extra.setdefault("child_errors", []).append(r.stderr[-400:])
            continue
        ctx.count("children_run")
        out[f"{hs}#{idx}"] = {c["case"]: c for c in json.loads(r.stdout)}
    return out


def strings_only_diff(a, b):
    """Do two encoded values have the same structure, differing only inside strings of equal length?"""
    if isinstance(a, str) and isinstance(b, str):
        return len(a) == len(b)
    if type(a) is not type(b):
        return False
    if isinstance(a, list):
        return len(a) == len(b) and all(strings_only_diff(x, y) for x, y in zip(a, b))
    if isinstance(a, dict):
        return list(a) == list(b) and all(strings_only_diff(a[k], b[k]) for k in a)
    return a == b


from ..c17child import has_negated_class  # noqa: E402,F401


def run_shard(ctx):
    total = ctx.params["cases"]
    ids = list(range(ctx.shard, total, ctx.nshards))
    if ctx.only is not None:
        ids = [ctx.only]
    batch = 100
    for b in range(0, len(ids), batch):
        chunk = ids[b:b + batch]
        res = run_children(ctx, chunk)
        if len(res) < 2:
            ctx.count("batches_without_two_configs")
            continue
        configs = sorted(res)
        ref = res[configs[0]]
        for case in chunk:
            ctx.case = case
            ctx.count("evaluations")
            rows = [res[c].get(case) for c in configs]
            if any(r is None for r in rows):
                ctx.count("case_missing_in_child")
                continue
            r0 = rows[0]
            # harness self-check: same schemas in every configuration
            if any(r["reprs"] != r0["reprs"] for r in rows):
                ctx.count("harness_case_generation_not_deterministic")
                continue
            ctx.distinct([r0["seed_kind"], r0["reprs"]], len(r0["reprs"]) > 0)
            if case % 300 == 0:
                ctx.sample({"seed_kind": r0["seed_kind"], "schemas": [x[:120] for x in r0["reprs"][:4]],
                            "values": r0["pass1"][:4]})
            ctx.table("seed_kinds", r0["seed_kind"])
            n = len(r0["reprs"])
            ctx.count("positions_compared", n * len(rows))
            for cfg, r in zip(configs, rows):
                for i in range(n):
                    if r["pass1"][i] != r["pass2"][i]:
                        ctx.violation("in_process_passes_differ", {"config": cfg, "schema": r["reprs"][i][:300],
                                                                   "pass1": r["pass1"][i], "pass2": r["pass2"][i],
                                                                   "position": i})
                        break
            for cfg, r in zip(configs[1:], rows[1:]):
                # every position is judged on its own: a draw consumes the same amount of RNG state whatever
                # character it maps to, so a divergence at one position cannot cause one at another
                for i in range(n):
                    if r["pass1"][i] != r0["pass1"][i]:
                        neg = bool(r0["negated"][i])
                        ctx.violation("configurations_differ", {
                            "configs": [configs[0], cfg], "schema": r0["reprs"][i][:300], "position": i,
                            "value_a": r0["pass1"][i], "value_b": r["pass1"][i],
                            "spec_has_negated_class": neg,
                            "differs_only_inside_equal_length_strings": strings_only_diff(r0["pass1"][i], r["pass1"][i]),
                            "in_process_stable": r["pass1"][i] == r["pass2"][i] and r0["pass1"][i] == r0["pass2"][i]})


def required(m, tier):
    c = m["counters"]
    out = []
    if c.get("positions_compared", 0) == 0:
        out.append("no position compared")
    if c.get("child_failed", 0):
        out.append(f"{c['child_failed']} child interpreters failed: {m['extra'].get('child_errors', [''])[:1]}")
    if c.get("harness_case_generation_not_deterministic", 0):
        out.append("harness case generation differed between configurations")
    return out
