"""C04 - substitution pins the given value into the schema."""
from .. import decode as dec
from .. import oracles as O
from .. import probes
from ..common import enc
from ..gen_subst import carries, contains_nan, float_tolerance, gen_pair
from ..gen_value import Unsat, perturbations, unsat_members, witness
from ..ref import UNJUDGED, accepts
from ..spec import ELL, list_form, nontrivial, shape, show
from .C01 import features

LEVEL = "exploration"
RULE = ("cases = (schema spec, plain value) with complete conforming values and partial dicts at any depth (keys dropped wherever the "
        "position is a declared dict), values hitting every list form, unions, aliases; for every successful S % v: (a) v conforming => "
        "result accepts v; (b) fake(result) under adversarial schedules never raises, is accepted by the result and carries v; (c) every "
        "one-step perturbation of a completion that the result still accepts carries v; (d) dict keys not mentioned in v keep their schema "
        "(structural comparison of the decoded result) and optionality (behavioural: omitting / breaking them); (e) repr/validate on the "
        "result do not raise. Distinct by (abstract spec shape, value kind); non-trivial = >=1 constraint or nesting.")
ASSUMPTIONS = ["carries(): scalars ==, floats within the documented tolerance of the coarsest declared precision, bool/int identified",
               "NaN-containing values excluded (nan != nan)",
               "generation from the result is demanded only when the original schema is hereditarily satisfiable"]
TIERS = {"quick": dict(shards=16, cases=10000), "thorough": dict(shards=16, cases=80000)}


def setup(ctx):
    ctx._reach = probes.Reach()
    ctx._reach.start()


def teardown(ctx):
    ctx._reach.stop()
    ctx.extra["reach"] = ctx._reach.dump()


def _res(node):
    while node is not None and node != ELL and node["k"] == "alias":
        node = node["target"]
    return node


def same_key(a, b):
    try:
        return a in {b: 0}
    except TypeError:
        return False


def unmentioned(spec, rspec, v, path=()):
    """Yield problems: dict keys not mentioned in v must keep schema and optionality in the result."""
    a, b = _res(spec), _res(rspec)
    if a is None or b is None or a == ELL or b == ELL:
        return
    if a["k"] == "dict" and b["k"] == "dict" and isinstance(v, dict) and a.get("keys") is not None:
        if len(a["keys"]) == 0 and not a.get("relaxed"):
            return
        if b.get("keys") is None:
            yield ("declared_keys_lost", path)
            return
        for key, sub, opt in a["keys"]:
            hit = [(rk, rs, ro) for rk, rs, ro in b["keys"] if same_key(rk, key)]
            if key in v:
                if hit:
                    yield from unmentioned(sub, hit[0][1], v[key], path + (key,))
                continue
            if not hit:
                yield ("unmentioned_key_dropped", path + (key,))
                continue
            rk, rs, ro = hit[0]
            if bool(ro) != bool(opt):
                yield ("unmentioned_key_optionality_changed", path + (key,))
            if not dec.spec_eq(dec.normalise(sub), dec.normalise(rs)):
                yield ("unmentioned_key_schema_changed", path + (key,))
        if bool(a.get("relaxed")) != bool(b.get("relaxed")):
            yield ("relaxed_marker_changed", path)
    elif a["k"] == "list" and b["k"] == "list" and isinstance(v, list) and b.get("form") == "elems":
        form, els = list_form(a)
        rels = b["elems"]
        if len(rels) != len(v):
            return
        for i, x in enumerate(v):
            if rels[i] == ELL:
                continue
            if form == "typed":
                yield from unmentioned(els[0], rels[i], x, path + (i,))
            elif form in ("exact", "head") and i < len(els):
                yield from unmentioned(els[i], rels[i], x, path + (i,))
            elif form == "tail" and i - (len(v) - len(els)) >= 0:
                yield from unmentioned(els[i - (len(v) - len(els))], rels[i], x, path + (i,))


def optional_behaviour(ctx, spec, schema, r, v, w0, info):
    """Behavioural check at the root: an optional key not mentioned in v can still be omitted; a non-conforming
    value for an unmentioned key is rejected; a conforming one accepted."""
    node = _res(spec)
    if node["k"] != "dict" or node.get("keys") is None or not isinstance(v, dict) or not isinstance(w0, dict):
        return
    for key, sub, opt in node["keys"]:
        if key in v:
            continue
        ctx.count("unmentioned_keys_probed")
        base = dict(w0)
        base.pop(key, None)
        e, x = O.real_validate(r, base)
        if x is None:
            if opt and e:
                ctx.violation("optional_unmentioned_key_became_required", {**info, "key": enc(key), "probe": enc(base),
                                                                           "errors": [repr(z)[:160] for z in e[:2]]})
            if not opt and not e:
                ctx.violation("required_unmentioned_key_became_optional", {**info, "key": enc(key), "probe": enc(base)})
        from ..gen_value import OddValue
        bad = dict(base)
        bad[key] = OddValue()
        if accepts(sub, bad[key]) is False:
            e, x = O.real_validate(r, bad)
            if x is None and not e:
                ctx.violation("unmentioned_key_accepts_anything", {**info, "key": enc(key)})


def contains_window_with_partial_dict(spec):
    """Is there a contains-list [..., x, ...] whose window holds (possibly nested) a declared dict with a
    required key?  (substitution tries windows with its *partial-dict* validation, see finding F21)"""
    from ..spec import walk

    def has_required_dict(n):
        return any(m["k"] == "dict" and m.get("keys") and any(not o for _, _, o in m["keys"]) for _, m in walk(n))
    for _, n in walk(spec):
        if n["k"] == "list":
            form, els = list_form(n)
            if form == "contains" and any(has_required_dict(e) for e in els):
                return True
    return False


def run_case(ctx, rng, case):
    from d42 import substitute
    from d42.substitution.errors import SubstitutionError
    spec, v, vkind = gen_pair(rng, hostile=False)
    if contains_nan(v):
        ctx.count("nan_value_excluded")
        return
    schema = O.try_build(ctx, spec)
    if schema is None:
        return
    ctx.distinct([shape(spec), vkind], nontrivial(spec))
    info = {"spec": show(spec), "repr": repr(schema)[:400], "value": enc(v), "vkind": vkind}
    conforming = accepts(spec, v)
    try:
        r = substitute(schema, v)
    except SubstitutionError as e:
        ctx.table("outcome", f"{vkind}|refused")
        if conforming is True and vkind == "complete":
            ctx.count("conforming_value_refused")
            ctx.table("refusal_reason", str(e)[:50])
        return
    except Exception:
        ctx.count("substitute_raised(C12)")
        return
    ctx.table("outcome", f"{vkind}|substituted")
    ctx.count("substitutions")
    if case % 600 == 0:
        ctx.sample({"repr": repr(schema)[:300], "value": enc(v), "result": repr(r)[:300]})
    tol = float_tolerance(spec)
    try:
        rtext = repr(r)
    except Exception as e:  # noqa
        ctx.violation("result_repr_raised", {**info, "exc": O.exc_info(e)})
        return
    info["result"] = rtext[:400]
    # (a)
    errs, exc = O.real_validate(r, v)
    if exc is not None:
        ctx.violation("result_validate_raised", {**info, "exc": O.exc_info(exc)})
        return
    if conforming is True:
        ctx.count("a_conforming_checked")
        if errs:
            ctx.violation("result_rejects_the_substituted_value", {
                **info, "errors": [repr(e)[:200] for e in errs[:3]],
                "error_kinds": sorted({type(e).__name__ for e in errs}),
                "contains_window_with_partial_dict": contains_window_with_partial_dict(spec)})
    # (d) structural
    try:
        rspec = dec.inherit_examples(dec.decode(r), spec)
    except dec.DecodeError:
        rspec = None
        ctx.count("result_undecodable")
    if rspec is not None:
        ctx.count("d_structural_checked")
        for prob, where in unmentioned(spec, rspec, v):
            ctx.violation(prob, {**info, "at": enc(list(where))})
    # completions of v accepted by r
    sat = True
    try:
        witness(spec, rng)
        if unsat_members(spec, rng):
            sat = False
    except Unsat:
        sat = False
    completions = []
    if sat:
        feats = features(rspec) if rspec is not None else []
        for name, w, gexc in O.generate_all(ctx, r, rng, real_runs=1, max_sched=8 if ctx.tier == "quick" else 40):
            if gexc is not None:
                xi = O.exc_info(gexc)
                ctx.violation(f"result_fake_raised:{xi['type']}", {**info, "schedule": name, "exc": xi, "features": feats})
                break
            ctx.count("b_generated")
            e2, x2 = O.real_validate(r, w)
            if x2 is not None or e2:
                ctx.violation("result_generates_rejected_value", {**info, "schedule": name, "generated": enc(w),
                                                                  "features": feats,
                                                                  "errors": [repr(z)[:160] for z in (e2 or [])[:3]]})
                break
            if not carries(v, w, tol):
                ctx.violation("generated_value_does_not_carry_v", {**info, "schedule": name, "generated": enc(w)})
                break
            if len(completions) < 2:
                completions.append(w)
    else:
        ctx.count("original_not_hereditarily_sat")
    if not errs and len(completions) < 3:
        completions.append(v)
    # (c) perturbations of completions: accepted => carries
    for w0 in completions[:2]:
        ps = list(perturbations(w0, rng, rspec if rspec is not None else spec))
        if len(ps) > (60 if ctx.tier == "quick" else 150):
            ps = rng.sample(ps, 60 if ctx.tier == "quick" else 150)
        for w, d in ps:
            e3, x3 = O.real_validate(r, w)
            if x3 is not None:
                continue
            ctx.count("c_perturbations_tried")
            if e3:
                ctx.count("c_perturbations_rejected")
                continue
            if not carries(v, w, tol):
                ctx.violation("result_accepts_value_not_carrying_v", {**info, "accepted": enc(w), "perturbation": str(d[0])})
    if completions:
        optional_behaviour(ctx, spec, schema, r, v, completions[0], info)


def required(m, tier):
    c = m["counters"]
    out = []
    for k in ("substitutions", "a_conforming_checked", "b_generated", "c_perturbations_rejected", "d_structural_checked"):
        if c.get(k, 0) == 0:
            out.append(f"oracle counter {k} is zero")
    t = m["tables"].get("outcome", {})
    if t.get("partial|substituted", 0) == 0:
        out.append("no partial-dict substitution succeeded")
    return out


def coverage_extra(m, tier):
    files = ["d42/substitution/_substitutor.py", "d42/substitution/_validator.py", "d42/utils/_from_native.py"]
    return {"reach": probes.reach_summary(m["extra"].get("reach", {}), files)}
