"""C13 - schema combinators mean what their parts mean."""
from .. import decode as dec
from .. import oracles as O
from ..combine import merge_spec, required_spec, union_spec
from ..common import enc
from ..gen_spec import Profile, gen_declared_dict, gen_keys, gen_spec
from ..gen_value import Unsat, perturbations, unsat_members, witness
from ..ref import UNJUDGED, accepts
from ..spec import mk, nontrivial, shape, show

LEVEL = "exploration"
RULE = ("cases = operand specs: unions a|b, schema.any(a,b,c..), nested unions (left/right nested, unions of aliases) vs their "
        "flattening; d1+d2 over declared dicts with every mix of optional/required/relaxed keys and overlapping key sets; "
        "make_required(d, K) for K in {None, empty, singletons, all, lists/sets/tuples, unknown keys}; alias; d[key], iteration; "
        "values conforming to one operand, the other, both, the expected combination and all one-step perturbations; oracle = "
        "reference acceptor on a spec computed by the harness's own model of the combinator (rv/combine.py), never on the combined "
        "object's props. Distinct by (combinator, abstract operand shapes); non-trivial always (>=1 combinator).")
ASSUMPTIONS = ["undeclared schema.dict operands of + are outside the property's quantifier and are not generated",
               "dict keys that collide under Python's hash/== (1 / True / 1.0) are not mixed within one operand pair"]
REACH_FILES = ['d42/declaration/types/_any_schema.py', 'd42/declaration/types/_dict_schema.py', 'd42/utils/_make_required.py', 'd42/declaration/types/_type_alias_schema.py']
TIERS = {"quick": dict(shards=16, cases=6000), "thorough": dict(shards=16, cases=90000)}

PROF = Profile(max_depth=2, p_unsat=0.02, key_pool="wide", p_dict_undeclared=0.0)
DPROF = Profile(max_depth=2, p_unsat=0.02, key_pool="str", p_dict_undeclared=0.0)


def compare(ctx, what, expected_spec, combined, values, info):
    """validate(combined, v) clean  ==  ref(expected_spec, v) for every value."""
    for v, origin in values:
        r = accepts(expected_spec, v)
        if r is UNJUDGED:
            ctx.count("unjudged")
            continue
        errs, exc = O.real_validate(combined, v)
        if exc is not None:
            ctx.count("validate_raised(C08)")
            continue
        ctx.count("verdicts_compared")
        ctx.table("verdicts", f"{what}|{'acc' if r else 'rej'}")
        if (not errs) != r:
            ctx.violation(f"{what}:combined_verdict_differs_from_model", {
                **info, "value": enc(v), "origin": str(origin), "model_accepts": r, "validate_ok": not errs,
                "errors": [repr(e)[:160] for e in errs[:3]]})


def values_for(ctx, rng, specs, cap):
    out = []
    for s in specs:
        for mode in ("rand", "min", "max"):
            try:
                w = witness(s, rng, mode)
            except Unsat:
                break
            out.append((w, "witness"))
        for w, _ in out[:2]:
            pass
    base = list(out)
    for w, _ in base[:4]:
        for s in specs[:2]:
            ps = list(perturbations(w, rng, s))
            if len(ps) > cap:
                ps = rng.sample(ps, cap)
            out.extend((pv, "perturb:" + str(d[0])) for pv, d in ps)
    return out


def gen_fake_check(ctx, what, expected_spec, combined, rng, info):
    """fake(combined) must not raise and must be accepted by the combination (hereditarily satisfiable operands only)."""
    try:
        witness(expected_spec, rng)
    except Unsat:
        return
    if unsat_members(expected_spec, rng):
        return
    from d42 import fake
    from d42.generation import Random
    for _ in range(2):
        Random().set_seed(rng.getrandbits(32))
        try:
            w = fake(combined)
        except Exception as e:  # noqa
            xi = O.exc_info(e)
            if xi["type"] in ("ValueError", "IndexError"):
                ctx.count("fake_raised(C01 findings)")
                return
            ctx.violation(f"{what}:fake_raised:{xi['type']}", {**info, "exc": xi})
            return
        ctx.count("fake_checked")
        errs, exc = O.real_validate(combined, w)
        if exc is None and errs:
            ctx.violation(f"{what}:fake_value_rejected_by_combination", {**info, "generated": enc(w),
                                                                        "errors": [repr(e)[:160] for e in errs[:3]]})


def case_union(ctx, rng):
    from d42 import schema
    n = rng.choice((2, 2, 3))
    ops = [gen_spec(rng, PROF, depth=rng.randint(0, 2)) for _ in range(n)]
    built = [O.try_build(ctx, s) for s in ops]
    if any(b is None for b in built):
        return
    style = rng.choice(("or", "any", "nested_left", "nested_right", "alias"))
    if style == "or":
        comb = built[0]
        for b in built[1:]:
            comb = comb | b
    elif style == "any":
        comb = schema.any(*built)
    elif style == "nested_left":
        comb = schema.any(schema.any(*built[:-1]), built[-1])
    elif style == "nested_right":
        comb = schema.any(built[0], schema.any(*built[1:]))
    else:
        comb = schema.alias("U", built[0]) | schema.any(*[schema.alias("V", b) for b in built[1:]])
    expected = union_spec(*ops)
    ctx.distinct(["union", style, [shape(s) for s in ops]], True)
    info = {"combinator": "union:" + style, "operands": [show(s) for s in ops], "combined": repr(comb)[:300]}
    compare(ctx, "union", expected, comb, values_for(ctx, rng, ops, 40), info)
    # iteration exposes the (flattened) alternatives
    flat = dec.normalise(expected)["types"]
    try:
        alts = list(comb)
        ctx.count("iteration_checked")
        if style != "alias":
            got = [dec.decode(a) for a in alts]
            if len(got) != len(flat) or not all(dec.spec_eq(a, b) for a, b in zip(got, flat)):
                ctx.violation("union:iteration_does_not_expose_alternatives", {**info, "iterated": [repr(a)[:80] for a in alts]})
    except dec.DecodeError:
        pass
    except Exception as e:  # noqa
        ctx.violation("union:iteration_raised", {**info, "exc": O.exc_info(e)})
    gen_fake_check(ctx, "union", expected, comb, rng, info)
    return info


def disjoint_hash_keys(d1, d2):
    """Avoid 1/True/1.0-style collisions between *different* key objects of the two operands."""
    for k1, _, _ in d1["keys"]:
        for k2, _, _ in d2["keys"]:
            try:
                if k1 == k2 and (type(k1) is not type(k2)):
                    return False
            except Exception:
                return False
    return True


def case_plus(ctx, rng):
    prof = DPROF if rng.random() < 0.6 else PROF
    d1 = gen_declared_dict(rng, prof, depth=rng.randint(1, 2))
    d2 = gen_declared_dict(rng, prof, depth=rng.randint(1, 2))
    # force overlaps: copy some keys of d1 into d2 with a different schema / flipped optional flag
    for key, sub, opt in list(d1["keys"]):
        if rng.random() < 0.4 and not any(k == key and type(k) is type(key) for k, _, _ in d2["keys"]):
            d2["keys"].append((key, gen_spec(rng, prof, depth=0) if rng.random() < 0.7 else sub,
                               (not opt) if rng.random() < 0.6 else opt))
    if not disjoint_hash_keys(d1, d2):
        return
    s1, s2 = O.try_build(ctx, d1), O.try_build(ctx, d2)
    if s1 is None or s2 is None:
        return
    try:
        comb = s1 + s2
    except Exception as e:  # noqa
        ctx.violation(f"plus:raised:{type(e).__name__}", {"d1": show(d1), "d2": show(d2), "exc": O.exc_info(e)})
        return
    expected = merge_spec(d1, d2)
    ctx.distinct(["plus", shape(d1), shape(d2)], True)
    ov = sum(1 for k, _, _ in d1["keys"] if any(k == k2 for k2, _, _ in d2["keys"]))
    ctx.table("plus_cases", f"overlap={min(ov, 2)}|relaxed={int(bool(d1.get('relaxed')))}{int(bool(d2.get('relaxed')))}")
    info = {"combinator": "plus", "operands": [show(d1), show(d2)], "combined": repr(comb)[:400]}
    vals = values_for(ctx, rng, [expected, d1, d2], 40)
    compare(ctx, "plus", expected, comb, vals, info)
    compare(ctx, "plus_operand", d1, s1, vals[:20], info)
    compare(ctx, "plus_operand", d2, s2, vals[:20], info)
    # operands unchanged in meaning (purity is C07's; here only that + did not alias the key tables)
    check_members(ctx, "plus", expected, comb, info)
    gen_fake_check(ctx, "plus", expected, comb, rng, info)
    return info


def check_members(ctx, what, expected, comb, info):
    """d[key], keys(), iteration expose the declared member schemas in order."""
    try:
        keys = list(comb.keys())
        it = list(comb)
    except Exception as e:  # noqa
        ctx.violation(f"{what}:keys_or_iteration_raised", {**info, "exc": O.exc_info(e)})
        return
    want = [k for k, _, _ in expected["keys"]]
    got = [k for k in keys if k is not ...]
    got_it = [k for k in it if k is not ...]
    ctx.count("member_access_checked")
    def same_set(xs, ys):
        return len(xs) == len(ys) and all(any(a == b and type(a) is type(b) for b in ys) for a in xs)
    if not same_set(got, want) or not same_set(got_it, want):
        ctx.violation(f"{what}:keys_not_the_declared_keys", {**info, "keys": enc(keys), "expected": enc(want)})
        return
    for k, sub, _ in expected["keys"]:
        try:
            member = comb[k]
            if not dec.spec_eq(dec.decode(member), dec.normalise(sub)):
                ctx.violation(f"{what}:getitem_returns_other_schema", {**info, "key": enc(k), "got": repr(member)[:120]})
        except dec.DecodeError:
            pass
        except Exception as e:  # noqa
            ctx.violation(f"{what}:getitem_raised", {**info, "key": enc(k), "exc": O.exc_info(e)})


def case_make_required(ctx, rng):
    from d42.declaration import DeclarationError
    from d42.utils import make_required
    d = gen_declared_dict(rng, DPROF if rng.random() < 0.7 else PROF, depth=rng.randint(1, 2))
    s = O.try_build(ctx, d)
    if s is None:
        return
    names = [k for k, _, _ in d["keys"]]
    mode = rng.choice(("none", "empty", "single", "all", "subset", "unknown"))
    if mode == "none":
        K = None
    elif mode == "empty":
        K = []
    elif mode == "single" and names:
        K = [rng.choice(names)]
    elif mode == "all":
        K = list(names)
    elif mode == "subset" and names:
        K = rng.sample(names, rng.randint(0, len(names)))
    elif mode == "unknown":
        K = (names[:1] if names else []) + ["no_such_key_zz"]
    else:
        K = []
    if K is not None:
        try:
            container = rng.choice((list, tuple, set))
            Kc = container(K)
        except TypeError:
            Kc = list(K)
    else:
        Kc = None
    info = {"combinator": "make_required", "operand": show(d), "keys": enc(Kc), "mode": mode}
    ctx.table("make_required_modes", mode)
    try:
        comb = make_required(s, Kc)
    except DeclarationError:
        if mode == "unknown":
            ctx.count("unknown_key_refused")
            return
        ctx.violation("make_required:refused_known_keys", info)
        return
    except Exception as e:  # noqa
        ctx.violation(f"make_required:raised:{type(e).__name__}", {**info, "exc": O.exc_info(e)})
        return
    if mode == "unknown":
        ctx.violation("make_required:unknown_key_accepted", {**info, "result": repr(comb)[:300]})
        return
    expected = required_spec(d, K)
    ctx.distinct(["make_required", mode, shape(d)], True)
    info["combined"] = repr(comb)[:400]
    vals = values_for(ctx, rng, [expected, d], 40)
    compare(ctx, "make_required", expected, comb, vals, info)
    # the operand still means what it was declared to mean (the combinator builds a new schema)
    compare(ctx, "make_required_operand", d, s, vals[:30], info)
    check_members(ctx, "make_required", expected, comb, info)
    gen_fake_check(ctx, "make_required", expected, comb, rng, info)
    return info


def case_alias(ctx, rng):
    from d42 import schema
    t = gen_spec(rng, PROF, depth=rng.randint(0, 2))
    b = O.try_build(ctx, t)
    if b is None:
        return
    comb = schema.alias(rng.choice(("A", "Name", "x")), b)
    if rng.random() < 0.3:
        comb = schema.alias("Outer", comb)
    ctx.distinct(["alias", shape(t)], True)
    info = {"combinator": "alias", "operand": show(t), "combined": repr(comb)[:300]}
    compare(ctx, "alias", t, comb, values_for(ctx, rng, [t], 60), info)
    gen_fake_check(ctx, "alias", t, comb, rng, info)
    return info


def run_case(ctx, rng, case):
    which = (case_union, case_plus, case_make_required, case_alias)[case % 4]
    info = which(ctx, rng)
    if info and case % 800 < 4:
        ctx.sample(info)


def required(m, tier):
    c = m["counters"]
    out = []
    t = m["tables"].get("verdicts", {})
    for what in ("union", "plus", "make_required", "alias"):
        for v in ("acc", "rej"):
            if t.get(f"{what}|{v}", 0) == 0:
                out.append(f"{what}: verdict class {v} never observed")
    if c.get("member_access_checked", 0) == 0:
        out.append("member access never checked")
    if c.get("unknown_key_refused", 0) == 0:
        out.append("make_required with an unknown key never observed")
    return out
