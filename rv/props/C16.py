"""C16 - custom schema types behave like built-ins in every position (differential monitor)."""
import copy
import threading

from .. import oracles as O
from ..build import build
from ..common import enc
from ..gen_spec import Profile, gen_spec
from ..gen_subst import is_plain, partialise
from ..gen_value import Unsat, perturbations, unsat_members, witness
from ..spec import ELL, nontrivial, shape, show, walk

LEVEL = "exploration"
RULE = ("cases = schema trees T x subsets M of their nodes replaced by a forwarding CustomSchema defined in the harness (single node in "
        "every position class: list element of each list form, typed-list type, dict value under required/optional key, union "
        "alternative, alias target, root; random subsets; all nodes; nested wraps) x values (witnesses, one-step perturbations, partial "
        "dicts); oracle: validate(wrapped) and validate(plain) give the same list of (error class, path, repr); repr identical (also "
        "with indent=k and an extra keyword argument); fake(wrapped) never raises and is accepted by plain; wrapped % v and plain % v "
        "agree in outcome (exception class+message, or result repr and verdicts). Distinct by (abstract tree shape, wrapped position "
        "classes); non-trivial = >=1 wrapped node below the root or nesting.")
ASSUMPTIONS = ["a union directly inside a union is not wrapped (a wrapped any is not flattened at declaration: harness artefact)",
               "the forwarding type passes path/indent/value/**kwargs through unchanged"]
REACH_FILES = ['d42/custom_type/_custom_type.py']
TIERS = {"quick": dict(shards=16, cases=5000), "thorough": dict(shards=16, cases=50000)}

PROF = Profile(max_depth=3, p_unsat=0.02, p_empty_alphabet=0.0)


def position_class(spec, path):
    """Name of the position a node occupies."""
    if not path:
        return "root"
    parent = spec
    for step in path[:-1]:
        parent = child(parent, step)
    last = path[-1]
    if last == "type":
        return "typed_list_type"
    if last == "target":
        return "alias_target"
    kind, i = last
    if kind == "elem":
        from ..spec import list_form
        return "list_element_" + list_form(parent)[0]
    if kind == "key":
        return "dict_value_optional" if parent["keys"][i][2] else "dict_value_required"
    if kind == "alt":
        return "any_alternative"
    return "?"


def child(node, step):
    if step == "type":
        return node["type"]
    if step == "target":
        return node["target"]
    kind, i = step
    if kind == "elem":
        return node["elems"][i]
    if kind == "key":
        return node["keys"][i][1]
    if kind == "alt":
        return node["types"][i]


def mark(spec, paths, n=1):
    s = copy.deepcopy(spec)
    for p in paths:
        node = s
        for step in p:
            node = child(node, step)
        node["wrap"] = n
    return s


def wrappable(spec):
    """Paths that may be wrapped (not a union directly inside a union)."""
    out = []
    for path, node in walk(spec):
        if path and path[-1] != "type" and path[-1] != "target" and path[-1][0] == "alt" and node["k"] == "any":
            continue
        out.append(path)
    return out


def errsig(errs):
    return [(type(e).__name__, repr(e)) for e in errs]


def plant(v, x, rng):
    """v with one randomly chosen leaf position replaced by x (containers on the way are copied, not mutated)."""
    if isinstance(v, list) and v:
        i = rng.randrange(len(v))
        out = list(v)
        out[i] = plant(v[i], x, rng) if isinstance(v[i], (list, dict)) and v[i] and rng.random() < 0.7 else x
        return out
    if isinstance(v, dict) and v:
        k = rng.choice(list(v))
        out = dict(v)
        out[k] = plant(v[k], x, rng) if isinstance(v[k], (list, dict)) and v[k] and rng.random() < 0.7 else x
        return out
    return x


def other_visitors(ctx, rng, info, plain, wrapped, vals):
    """The same comparisons through *differently configured instances* of the public visitor classes (after the default
    ones have been used on this very schema): a custom type must follow the visitor it is handed, as a built-in does."""
    from d42.representation import Representor
    from d42.substitution import Substitutor
    from d42.validation import Formatter, ValidationResult, Validator

    class TaggedResult(ValidationResult):
        pass
    try:
        R = Representor(name=rng.choice(("d42", "s", "sch")), indent=rng.choice((1, 2, 3)))
        a, b = wrapped.__accept__(R), plain.__accept__(R)
        ctx.count("other_visitor_repr_compared")
        if a != b:
            ctx.violation("repr_differs_under_configured_representor", {**info, "name": R.name, "wrapped_repr": a[:300], "plain_repr": b[:300]})
    except Exception as e:  # noqa
        ctx.violation(f"configured_representor_raised:{type(e).__name__}", {**info, "exc": O.exc_info(e)})
    V = Validator(validation_result_factory=TaggedResult)
    Sb = Substitutor(formatter=Formatter(root=rng.choice(("body", "response", "$"))))
    for v in vals[:4]:
        def run(s):
            try:
                return s.__accept__(V, value=v), None
            except Exception as e:  # noqa
                return None, e
        (rw, xw), (rp, xp) = run(wrapped), run(plain)
        ctx.count("other_visitor_validations_compared")
        if (xw is None) != (xp is None) or (xw is not None and type(xw) is not type(xp)):
            ctx.violation("validate_exception_differs_under_configured_validator", {**info, "value": enc(v)})
        elif xw is None:
            if type(rw) is not type(rp) or errsig(rw.get_errors()) != errsig(rp.get_errors()):
                ctx.violation("validation_differs_under_configured_validator", {
                    **info, "value": enc(v), "result_types": [type(rw).__name__, type(rp).__name__]})

        def sub(s):
            try:
                return "ok", repr(s.__accept__(Sb, value=v))
            except Exception as e:  # noqa
                return type(e).__name__, str(e)
        sw, sp = sub(wrapped), sub(plain)
        ctx.count("other_visitor_substitutions_compared")
        if sw != sp:
            ctx.violation("substitution_differs_under_configured_substitutor", {
                **info, "value": enc(v), "root": Sb.formatter.root, "wrapped": [sw[0], sw[1][:300]], "plain": [sp[0], sp[1][:300]]})


def run_case(ctx, rng, case):
    from d42 import fake, represent, substitute, validate
    from d42.generation import Random
    from .. import custom
    tree = gen_spec(rng, PROF, depth=rng.choice((1, 2, 2, 3)))
    plain = O.try_build(ctx, tree)
    if plain is None:
        return
    paths = wrappable(tree)
    mode = rng.choice(("single", "single", "single", "subset", "all", "nested"))
    if mode in ("single", "nested"):
        inner = [p for p in paths if p]
        M = [rng.choice(inner)] if inner and rng.random() < 0.85 else [rng.choice(paths)]
    elif mode == "subset":
        M = rng.sample(paths, rng.randint(1, len(paths)))
    else:
        M = list(paths)
    wspec = mark(tree, M, 2 if mode == "nested" else 1)
    try:
        wrapped = build(wspec, wrapper=custom.wrap)
    except Exception as e:  # noqa
        ctx.violation(f"declaration_with_custom_type_raised:{type(e).__name__}", {"spec": show(wspec), "exc": O.exc_info(e)})
        return
    classes = sorted({position_class(tree, p) for p in M})
    ctx.distinct([shape(tree), classes], any(len(p) > 0 for p in M) or nontrivial(tree))
    for c in classes:
        ctx.table("wrapped_positions", c)
    info = {"plain": repr(plain)[:400], "wrapped_positions": classes, "mode": mode, "spec": show(wspec)}
    if case % 400 == 0:
        ctx.sample({"plain": repr(plain)[:300], "wrapped_positions": classes, "mode": mode})
    before = dict(custom.COUNTS)
    # repr
    try:
        rw, rp = repr(wrapped), repr(plain)
        ctx.count("repr_compared")
        if rw != rp:
            ctx.violation("repr_differs", {**info, "wrapped_repr": rw[:400]})
        k = rng.choice((0, 2, 4, 8))
        if represent(wrapped, indent=k) != represent(plain, indent=k):
            ctx.violation("repr_with_indent_differs", {**info, "indent": k})
        del custom.SEEN_KWARGS[:]
        if represent(wrapped, marker=1) != represent(plain, marker=1):
            ctx.violation("repr_with_kwargs_differs", info)
        lost = [op for op, kw in custom.SEEN_KWARGS if op == "represent" and kw.get("marker") != 1]
        ctx.count("kwargs_forwarding_observed", len(custom.SEEN_KWARGS))
        if lost:
            ctx.violation("extra_keyword_argument_not_forwarded_to_custom_hook:represent", {**info, "hooks_without_kwarg": len(lost)})
    except Exception as e:  # noqa
        ctx.violation(f"repr_raised:{type(e).__name__}", {**info, "exc": O.exc_info(e)})
    # values
    vals = []
    for m in ("rand", "min", "max"):
        try:
            vals.append(witness(tree, rng, m))
        except Unsat:
            break
    for w in list(vals[:2]):
        ps = list(perturbations(w, rng, tree))
        cap = 25 if ctx.tier == "quick" else 60
        if len(ps) > cap:
            ps = rng.sample(ps, cap)
        vals.extend(p for p, _ in ps)
    if vals:
        vals.append(partialise(tree, vals[0], rng))
    vals += [None, [], {}, ...]
    # values that cannot be copied / pickled, or that have identity only, at the root and planted at a random position
    # of a conforming value (a custom type must hand its hook the very object a built-in would look at)
    hostile = [(x for x in ()), threading.Lock(), memoryview(b"ab"), {"a": 1}.keys(), object(), iter([1])]
    vals.append(rng.choice(hostile))
    for w in vals[:2]:
        if isinstance(w, (list, dict)) and w:
            for _ in range(3):
                vals.append(plant(copy.copy(w), rng.choice(hostile), rng))
    if vals and isinstance(vals[0], (list, dict)):
        from ..gen_subst import placeholders
        ph = placeholders(vals[0], rng)
        vals += rng.sample(ph, min(4, len(ph)))
    for v in vals:
        ep, xp = O.real_validate(plain, v)
        try:
            resw = validate(wrapped, v)
            ew, xw = resw.get_errors(), None
        except Exception as e:  # noqa
            ew, xw = None, e
        ctx.count("validations_compared")
        if xp is not None or xw is not None:
            if (xp is None) != (xw is None) or type(xp) is not type(xw):
                ctx.violation("validate_exception_differs", {**info, "value": enc(v),
                                                             "plain": O.exc_info(xp) if xp else None,
                                                             "wrapped": O.exc_info(xw) if xw else None})
            continue
        if errsig(ep) != errsig(ew):
            ctx.violation("validation_errors_differ", {**info, "value": enc(v), "plain_errors": [repr(e)[:200] for e in ep[:4]],
                                                       "wrapped_errors": [repr(e)[:200] for e in ew[:4]]})
        # extra kwargs are forwarded
        try:
            del custom.SEEN_KWARGS[:]
            ek = validate(wrapped, v, marker=1).get_errors()
            seen = list(custom.SEEN_KWARGS)
            if errsig(ek) != errsig(ep):
                ctx.violation("validation_with_kwargs_differs", {**info, "value": enc(v)})
            # (rendering an error may call the represent hook without the marker: only validate hooks are judged here)
            lost = [op for op, kw in seen if op == "validate" and kw.get("marker") != 1]
            ctx.count("kwargs_forwarding_observed", len(seen))
            if lost:
                ctx.violation("extra_keyword_argument_not_forwarded_to_custom_hook:validate",
                              {**info, "value": enc(v), "hooks_without_kwarg": len(lost)})
        except Exception as e:  # noqa
            ctx.violation(f"validate_with_kwargs_raised:{type(e).__name__}", {**info, "value": enc(v), "exc": O.exc_info(e)})
        # substitution (plain values and ... placeholders alike: outcomes must coincide)
        if True:
            def sub(s):
                try:
                    return "ok", substitute(s, v)
                except Exception as e:  # noqa
                    return "exc", e
            sp, rp_ = sub(plain)
            sw, rw_ = sub(wrapped)
            ctx.count("substitutions_compared")
            if sp != sw:
                ctx.violation("substitution_outcome_differs", {**info, "value": enc(v), "plain": sp, "wrapped": sw,
                                                               "plain_exc": repr(rp_)[:200] if sp == "exc" else None,
                                                               "wrapped_exc": repr(rw_)[:200] if sw == "exc" else None})
            elif sp == "exc":
                if type(rp_) is not type(rw_) or str(rp_) != str(rw_):
                    ctx.violation("substitution_error_differs", {**info, "value": enc(v), "plain_exc": repr(rp_)[:300],
                                                                 "wrapped_exc": repr(rw_)[:300]})
            else:
                ctx.count("substitutions_both_succeeded")
                try:
                    if repr(rp_) != repr(rw_):
                        ctx.violation("substitution_result_repr_differs", {**info, "value": enc(v), "plain_result": repr(rp_)[:300],
                                                                           "wrapped_result": repr(rw_)[:300]})
                    for pv in vals[:8]:
                        a, xa = O.real_validate(rp_, pv)
                        b, xb = O.real_validate(rw_, pv)
                        if xa is None and xb is None and errsig(a) != errsig(b):
                            ctx.violation("substitution_result_verdicts_differ", {**info, "value": enc(v), "probe": enc(pv)})
                            break
                except Exception as e:  # noqa
                    ctx.violation(f"substitution_result_unusable:{type(e).__name__}", {**info, "value": enc(v), "exc": O.exc_info(e)})
    other_visitors(ctx, rng, info, plain, wrapped, vals)
    # generation
    sat = bool(vals) and True
    try:
        witness(tree, rng)
        if unsat_members(tree, rng):
            sat = False
    except Unsat:
        sat = False
    if sat:
        for i in range(3):
            seed = rng.getrandbits(32)
            Random().set_seed(seed)
            try:
                g = fake(wrapped)
            except Exception as e:  # noqa
                # only a difference from the plain tree counts (C01's own findings are not C16's)
                Random().set_seed(seed)
                try:
                    fake(plain)
                    ctx.violation(f"fake_wrapped_raised:{type(e).__name__}", {**info, "exc": O.exc_info(e)})
                except Exception:
                    ctx.count("fake_raised_on_both(C01)")
                break
            ctx.count("generated")
            e2, x2 = O.real_validate(plain, g)
            if x2 is None and e2:
                Random().set_seed(seed)
                try:
                    gp = fake(plain)
                    e3, _ = O.real_validate(plain, gp)
                except Exception:
                    e3 = None
                if e3:
                    ctx.count("plain_generates_rejected_too(C01)")
                else:
                    ctx.violation("fake_wrapped_value_rejected_by_plain", {**info, "generated": enc(g),
                                                                           "errors": [repr(e)[:160] for e in e2[:3]]})
                break
            # same seed => same value (forwarding consumes the same draws)
            Random().set_seed(seed)
            try:
                gp = fake(plain)
                if not has_clock(tree) and enc(gp) != enc(g):
                    ctx.violation("fake_differs_under_same_seed", {**info, "plain_value": enc(gp), "wrapped_value": enc(g)})
            except Exception:
                pass
    for op in ("represent", "generate", "validate", "substitute"):
        d = custom.COUNTS.get(op, 0) - before.get(op, 0)
        if d:
            for c in classes:
                ctx.table("hook_visits", f"{c}|{op}", d)


def has_clock(spec):
    return any(n["k"] in ("uuid4", "datetime", "date") and n.get("value") is None for _, n in walk(spec))


POSITIONS = ["root", "typed_list_type", "alias_target", "any_alternative", "dict_value_required", "dict_value_optional",
             "list_element_exact", "list_element_head", "list_element_tail", "list_element_contains"]


def required(m, tier):
    c = m["counters"]
    out = []
    for k in ("repr_compared", "validations_compared", "substitutions_both_succeeded", "generated"):
        if c.get(k, 0) == 0:
            out.append(f"oracle counter {k} is zero")
    hv = m["tables"].get("hook_visits", {})
    for pos in POSITIONS:
        for op in ("validate", "represent", "generate", "substitute"):
            if hv.get(f"{pos}|{op}", 0) == 0:
                out.append(f"forwarding hook {op} never visited in position {pos}")
    return out
