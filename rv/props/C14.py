"""C14 - from_native(value) denotes exactly that value."""
import datetime as _dt
import decimal
import fractions
import math
import uuid as _uuid

from .. import oracles as O
from ..common import abstract_float, abstract_int, enc
from ..gen_value import OddValue, perturbations

LEVEL = "exploration"
RULE = ("cases = nested plain values (depth<=4) over None, bool, int incl. huge, float incl. +-inf and -0.0, str, bytes, v4 UUID, "
        "naive/aware datetime, date, lists, dicts with str/int/tuple/None keys, weighted to the dispatch-order traps (bool vs int, "
        "datetime vs date, bytes vs str, empty containers); oracle: from_native(v) returns, validate accepts v, fake() yields exactly v "
        "(recursive type and ==), every one-step perturbation of v at every depth that is distinguishable under the property's caveats "
        "(not True<->1, not floats within tolerance) is rejected; non-plain values alone and nested at every depth are refused with "
        "ValueError. Distinct by abstract value shape; non-trivial = container or >=1 non-None scalar.")
ASSUMPTIONS = ["NaN excluded from plain values (nan != nan)", "floats closer than rel 1e-6 to the original are not judged",
               "True/False vs 1/0 differences are not judged (Python's identification)"]
REACH_FILES = ['d42/utils/_from_native.py']
TIERS = {"quick": dict(shards=16, cases=6000), "thorough": dict(shards=16, cases=60000)}

UUIDS = [_uuid.UUID("5a1f2e0c-9d3b-4c7a-8f21-0123456789ab"), _uuid.UUID("00000000-0000-4000-8000-000000000000")]


def gen_scalar(rng):
    r = rng.random()
    if r < 0.08:
        return None
    if r < 0.2:
        return rng.choice((True, False))
    if r < 0.4:
        return rng.choice((0, 1, -1, 2, 7, 255, 2 ** 31, -2 ** 63, 2 ** 64 + 1, 10 ** 30, rng.randint(-10 ** 6, 10 ** 6)))
    if r < 0.55:
        return rng.choice((0.0, -0.0, 1.0, 0.5, -2.25, 1e-7, 1e19, 123.456, float("inf"), float("-inf"), 5e-324,
                           round(rng.uniform(-1000, 1000), 3)))
    if r < 0.75:
        return rng.choice(("", "a", "ab", "Hello", "é日本", "x\ny", " ", "0", "True", "None",
                           # not NFC-stable text: decomposed sequences and singleton code points
                           "e\u0301", "o\u0308x", "\u2126", "\u212b", "A\u030a", "\ufb01", "\u1e9b\u0323",
                           "".join(rng.choice("abcxyz012 ") for _ in range(rng.randint(0, 12)))))
    if r < 0.82:
        return rng.choice((b"", b"a", b"\x00\xff", b"hello"))
    if r < 0.88:
        return rng.choice(UUIDS + [_uuid.UUID(int=rng.getrandbits(128), version=4)])
    if r < 0.94:
        return rng.choice((_dt.datetime(2020, 1, 2), _dt.datetime(2020, 1, 2, 3, 4, 5, 678),
                           _dt.datetime(2020, 1, 2, tzinfo=_dt.timezone.utc), _dt.datetime(1970, 1, 1, 0, 0)))
    return rng.choice((_dt.date(2020, 1, 2), _dt.date(1970, 1, 1), _dt.date(9999, 12, 31)))


def gen_plain(rng, depth, big=True):
    if depth <= 0 or rng.random() < 0.35:
        return gen_scalar(rng)
    if rng.random() < 0.5:
        sizes = (0, 1, 2, 2, 3, 4, 9, 17, 40) if big else (0, 1, 2, 2, 3, 4)
        return [gen_plain(rng, depth - 1 if rng.random() < 0.7 else 0, big) for _ in range(rng.choice(sizes))]
    keys = rng.sample(["a", "b", "id", "", "x y", 1, 2, (1, 2), None, -5, "0"], rng.choice((0, 1, 2, 3)))
    return {k: gen_plain(rng, depth - 1, big) for k in keys}


NON_PLAIN = [(1, 2), (), {1, 2}, frozenset({1}), decimal.Decimal("1.5"), fractions.Fraction(1, 2), complex(1, 2),
             bytearray(b"x"), _uuid.UUID("5a1f2e0c-9d3b-1c7a-8f21-0123456789ab"), _uuid.UUID("5a1f2e0c-9d3b-3c7a-8f21-0123456789ab"),
             _uuid.UUID("5a1f2e0c-9d3b-5c7a-8f21-0123456789ab"), _uuid.UUID(int=0), _uuid.UUID("5a1f2e0c-9d3b-4c7a-0f21-0123456789ab"),
             _uuid.UUID("00000000-0000-4000-e000-000000000000"), OddValue(), ..., OddValue, range(3),
             memoryview(b"x"), _dt.time(1, 2), _dt.timedelta(1), {...: 5}, {...: ...}, {"a": 1, ...: "x"}]


def strict_same(a, b):
    """Recursive type-and-value identity (floats exact, -0.0 == 0.0 as Python says)."""
    if type(a) is not type(b):
        return False
    if isinstance(a, list):
        return len(a) == len(b) and all(strict_same(x, y) for x, y in zip(a, b))
    if isinstance(a, dict):
        if len(a) != len(b):
            return False
        for k in a:
            if k not in b or not strict_same(a[k], b[k]):
                return False
        return True
    return a == b


def diff(a, b):
    """'same' | 'excused' (differs only by the property's caveats, or is an equal instance of a subclass: the same
    kind under isinstance typing) | 'different'."""
    if type(a) is not type(b) and isinstance(b, type(a)) and not isinstance(a, bool):
        try:
            plain = type(a)(b) if isinstance(a, (list, dict, int, float, str, bytes)) else None
        except Exception:
            plain = None
        if plain is not None and type(plain) is type(a):
            d = diff(a, plain)
            return "excused" if d == "same" else d
        try:
            return "excused" if a == b else "different"
        except Exception:
            return "different"
    if isinstance(a, bool) or isinstance(b, bool):
        if isinstance(a, int) and isinstance(b, int) and not isinstance(a, float) and a == b:
            return "same" if type(a) is type(b) else "excused"
        return "different"
    if isinstance(a, float) and isinstance(b, float):
        if a == b:
            return "same"
        if math.isfinite(a) and math.isfinite(b) and math.isclose(a, b, rel_tol=1e-6, abs_tol=1e-300):
            return "excused"
        return "different"
    if isinstance(a, list) and isinstance(b, list):
        if type(a) is not type(b) or len(a) != len(b):
            return "different"
        out = "same"
        for x, y in zip(a, b):
            d = diff(x, y)
            if d == "different":
                return d
            if d == "excused":
                out = d
        return out
    if isinstance(a, dict) and isinstance(b, dict):
        if type(a) is not type(b) or len(a) != len(b):
            return "different"
        out = "same"
        for k in a:
            if k not in b:
                return "different"
            d = diff(a[k], b[k])
            if d == "different":
                return d
            if d == "excused":
                out = d
        return out
    if type(a) is not type(b):
        return "different"
    try:
        return "same" if a == b else "different"
    except Exception:
        return "different"


def vshape(v, d=0):
    if isinstance(v, bool):
        return "bool"
    if isinstance(v, int):
        return "i" + abstract_int(v)
    if isinstance(v, float):
        return "f" + abstract_float(v)
    if isinstance(v, list):
        return ["L"] + [vshape(x, d + 1) for x in v[:5]]
    if isinstance(v, dict):
        return ["D"] + [[type(k).__name__, vshape(x, d + 1)] for k, x in list(v.items())[:5]]
    if isinstance(v, str):
        return f"s{min(len(v), 6)}"
    return type(v).__name__


def run_case(ctx, rng, case):
    from d42 import fake, validate
    from d42.utils import from_native
    if case % 5 == 4:
        return non_plain_case(ctx, rng, case)
    v = gen_plain(rng, rng.choice((0, 1, 2, 2, 3, 4)))
    if case % 7 == 3:
        # the same list / dict *object* at several positions of one acyclic value (rows built with `[row] * n`, one
        # default record under several keys): still a plain value, still denotes exactly itself
        c = gen_plain(rng, rng.choice((1, 2)), big=False)
        if not isinstance(c, (list, dict)):
            c = [c, 0]
        v = rng.choice(([c, c], {"a": c, "b": c}, [[c] * 2] * 3, [c, [c]], {"k": [c, c], "id": c}, [v, c, v, c]))
        ctx.count("values_with_shared_containers")
    ctx.distinct(vshape(v), v is not None)
    info = {"value": enc(v)}
    try:
        n = from_native(v)
    except Exception as e:  # noqa
        ctx.violation(f"from_native_raised_on_plain:{type(e).__name__}", {**info, "exc": O.exc_info(e)})
        return
    ctx.count("plain_values")
    ctx.table("root_kind", type(v).__name__)
    info["schema"] = repr(n)[:300]
    if case % 600 == 0:
        ctx.sample(info)
    errs, exc = O.real_validate(n, v)
    if exc is not None or errs:
        ctx.violation("from_native_schema_rejects_its_value", {**info, "errors": [repr(e)[:200] for e in (errs or [])[:3]],
                                                               "exc": O.exc_info(exc) if exc else None})
    for i in range(2):
        try:
            g = fake(n)
        except Exception as e:  # noqa
            ctx.violation(f"fake_raised:{type(e).__name__}", {**info, "exc": O.exc_info(e)})
            break
        ctx.count("generated")
        if not strict_same(g, v):
            ctx.violation("generated_value_is_not_the_value", {**info, "generated": enc(g)})
            break
    ps = list(perturbations(v, rng))
    cap = 80 if ctx.tier == "quick" else 200
    if len(ps) > cap:
        ps = rng.sample(ps, cap)
    for w, d in ps:
        dk = diff(v, w)
        if dk != "different":
            ctx.count("perturbation_" + dk)
            continue
        ctx.count("neighbours_tried")
        e2, x2 = O.real_validate(n, w)
        if x2 is not None:
            ctx.count("validate_raised(C08)")
            continue
        ctx.table("neighbour_class", str(d[0]))
        if not e2:
            ctx.violation("from_native_schema_accepts_a_different_value", {**info, "accepted": enc(w), "perturbation": str(d[0])})
        else:
            ctx.count("neighbours_rejected")


def embed(rng, x, depth):
    """Nest x inside plain containers at the given depth."""
    v = x
    for _ in range(depth):
        if rng.random() < 0.5:
            lst = [gen_scalar(rng) for _ in range(rng.randint(0, 2))]
            lst.insert(rng.randint(0, len(lst)), v)
            v = lst
        else:
            v = {"a": gen_scalar(rng), rng.choice(("k", 1, None)): v}
    return v


def non_plain_case(ctx, rng, case):
    from d42.utils import from_native
    x = rng.choice(NON_PLAIN)
    depth = rng.choice((0, 0, 1, 2, 3))
    v = embed(rng, x, depth)
    ctx.distinct(["nonplain", type(x).__name__, depth], True)
    ctx.count("non_plain_values")
    ctx.table("non_plain", f"{type(x).__name__}|depth{depth}")
    try:
        n = from_native(v)
    except ValueError:
        ctx.count("refused_with_ValueError")
        return
    except Exception as e:  # noqa
        ctx.violation(f"non_plain_wrong_exception:{type(e).__name__}", {"value": enc(v), "member": enc(x), "exc": O.exc_info(e)})
        return
    ctx.violation("non_plain_value_accepted", {"value": enc(v), "member": enc(x), "schema": repr(n)[:200]})


def required(m, tier):
    c = m["counters"]
    out = []
    for k in ("plain_values", "generated", "neighbours_rejected", "refused_with_ValueError"):
        if c.get(k, 0) == 0:
            out.append(f"oracle counter {k} is zero")
    return out
