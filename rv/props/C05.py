"""C05 - substitution only narrows a schema, never widens it."""
from .. import decode as dec
from .. import oracles as O
from ..common import enc
from ..gen_subst import contains_nan, gen_pair, is_plain
from ..gen_value import Unsat, perturbations, witness
from ..ref import UNJUDGED, accepts
from ..spec import nontrivial, shape, show

LEVEL = "exploration"
RULE = ("cases = (schema spec S, plain value v) with S % v defined; for every w drawn from fake(S % v) under adversarial schedules, v itself, "
        "independent witnesses of the decoded result (these reach the unpinned parts: unmentioned keys, extra keys under a relaxed "
        "marker, alternatives left in a union) and every one-step perturbation of those aimed at each constraint declared in S: "
        "validate(S % v, w) clean => validate(S, w) clean; evaluated with the two real validators and, as a cross-check, with the "
        "reference acceptor on decode(S % v) vs the spec of S. Distinct by (abstract spec shape, value kind); non-trivial = >=1 constraint.")
ASSUMPTIONS = ["pinned floats: w within tolerance of v but not equal are UNJUDGED by the reference cross-check",
               "NaN-containing values excluded"]
REACH_FILES = ['d42/substitution/_substitutor.py', 'd42/substitution/_validator.py']
TIERS = {"quick": dict(shards=16, cases=5000), "thorough": dict(shards=16, cases=70000)}


PROF5 = None


def run_case(ctx, rng, case):
    from ..gen_spec import gen_spec
    from ..gen_subst import PROF, partialise
    global PROF5
    if PROF5 is None:
        import copy
        PROF5 = copy.copy(PROF)
        PROF5.p_shape = PROF.p_shape / 5    # every case costs (#values x #perturbations x size): shaped specs are rarer here
    spec = gen_spec(rng, PROF5)
    schema = O.try_build(ctx, spec)
    if schema is None:
        return
    # the property quantifies over every plain v for which S % v succeeds - conforming or not:
    # witnesses, partial dicts, and one-step perturbations of witnesses (most are refused; the few that are
    # taken although they do not conform are where a widening shows)
    cands = []
    try:
        w = witness(spec, rng, rng.choice(("rand", "min", "max")))
        cands.append((w, "complete"))
        pw = partialise(spec, w, rng, rng.choice((0.2, 0.5, 0.9)))
        cands.append((pw, "partial"))
        if isinstance(w, list) and w and isinstance(pw, list) and spec.get("form") == "elems" and len(w) <= 8:
            # several (partial) copies of the declared window in one value: whichever of them a window search settles
            # on, the others must still be held to the original's element constraints
            cands.insert(rng.randint(0, 2), (rng.choice((pw + pw, w + pw, pw + w, pw[-1:] + pw, pw + pw[:1])), "partial_doubled"))
        ps = list(perturbations(w, rng, spec))
        k = 14 if ctx.tier == "quick" else 40
        if len(ps) > k:
            ps = rng.sample(ps, k)
        cands.extend((pv, "perturbed") for pv, _ in ps)
    except Unsat:
        cands.append((rng.choice((None, 0, "", [], {}, [0], {"a": 1})), "unrelated"))
    done = 0
    for v, vkind in cands:
        if contains_nan(v) or not is_plain(v):
            continue
        if done >= 4:
            break
        if one_value(ctx, rng, case, spec, schema, v, vkind):
            done += 1


def one_value(ctx, rng, case, spec, schema, v, vkind):
    from d42 import substitute
    from d42.substitution.errors import SubstitutionError
    ctx.count("substitute_calls")
    try:
        r = substitute(schema, v)
    except SubstitutionError:
        ctx.count("refused")
        return False
    except RecursionError:
        return False
    except Exception:
        ctx.count("substitute_raised(C12)")
        return False
    ctx.distinct([shape(spec), vkind], nontrivial(spec))
    ctx.count("substitutions")
    ctx.table("substituted_value_kinds", vkind)
    info = {"spec": show(spec), "repr": repr(schema)[:400], "value": enc(v), "vkind": vkind}
    try:
        info["result"] = repr(r)[:400]
    except Exception:
        ctx.count("result_repr_raised(C12)")
        return True
    if case % 500 == 0 and vkind == "complete":
        ctx.sample({"repr": repr(schema)[:300], "value": enc(v), "result": info["result"][:300]})
    try:
        rspec = dec.inherit_examples(dec.decode(r), spec)
    except dec.DecodeError:
        rspec = None
        ctx.count("result_undecodable")
    # candidate w's
    bases = [("v", v)]
    for name, w, gexc in O.generate_all(ctx, r, rng, real_runs=1, max_sched=5):
        if gexc is None:
            bases.append(("fake:" + name, w))
    if rspec is not None:
        for mode in ("rand", "min", "max", "rand"):
            try:
                bases.append(("witness:" + mode, witness(rspec, rng, mode)))
            except Unsat:
                break
    seen_accept = 0
    cands = list(bases)
    cap = 40 if ctx.tier == "quick" else 100
    for origin, b in bases[:5]:
        # perturbations aimed at the constraints of S (spec guides `aimed`) and of the result
        for guide in (spec, rspec):
            if guide is None:
                continue
            ps = list(perturbations(b, rng, guide))
            if len(ps) > cap:
                ps = rng.sample(ps, cap)
            cands.extend(("perturb:" + str(d[0]), w) for w, d in ps)
    for origin, w in cands:
        er, xr = O.real_validate(r, w)
        if xr is not None:
            continue
        ctx.count("w_tried")
        if er:
            continue
        ctx.count("w_accepted_by_result")
        ctx.table("accepted_origin", origin.split(":")[0])
        seen_accept += 1
        es, xs = O.real_validate(schema, w)
        if xs is not None:
            ctx.count("original_validate_raised(C08)")
            continue
        if es:
            ctx.violation("widened:result_accepts_what_original_rejects", {
                **info, "w": enc(w), "origin": origin, "original_errors": [repr(e)[:200] for e in es[:3]],
                "error_kinds": sorted({type(e).__name__ for e in es})})
        # reference cross-check (a validator bug affecting both sides equally cannot hide a widening)
        if rspec is not None:
            ra, rb = accepts(rspec, w), accepts(spec, w)
            if ra is True and rb is False:
                ctx.violation("widened(reference):decoded_result_accepts_what_spec_rejects",
                              {**info, "w": enc(w), "origin": origin})
            elif ra is not UNJUDGED and rb is not UNJUDGED:
                ctx.count("reference_crosschecks")
    if seen_accept:
        ctx.count("cases_with_accepting_w")
    return True


def required(m, tier):
    c = m["counters"]
    out = []
    if c.get("w_accepted_by_result", 0) == 0:
        out.append("antecedent vacuous: the result never accepted a candidate")
    t = m["tables"].get("accepted_origin", {})
    if t.get("perturb", 0) == 0:
        out.append("no perturbed value was accepted by a result (unpinned parts never exercised)")
    if c.get("reference_crosschecks", 0) == 0:
        out.append("reference cross-check never evaluated")
    return out
