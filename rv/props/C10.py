"""C10 - a declaration either fails cleanly or yields a self-consistent schema (enumerated call chains)."""
import datetime as _dt
import itertools
import math
import uuid as _uuid

from .. import decode as dec
from ..common import case_rng, enc
from ..ref import UNJUDGED, accepts, carried_value

LEVEL = "exploration"
RULE = ("programs = declaration call chains on every type over argument universes of valid, boundary, contradictory and wrongly-typed "
        "values (None, str, float, int, bool, bytes, bytearray, list, dict, Ellipsis, Nil, object(), negative lengths, every len form, "
        "invalid / overflowing patterns, element lists with every ellipsis placement, dict literals with one-sided ..., non-schema "
        "members). quick: ALL chains of length<=2 plus a seeded sample of lengths 3-4; thorough: ALL chains of length<=3 plus ALL "
        "chains of length 4 over a reduced universe. Per call: exception class, receiver fingerprint/repr before vs after a raise, "
        "conformance of a carried fixed value (real validator + reference), rejection of re-declared refinements. "
        "A chain is distinct by construction; non-trivial = length >= 2.")
ASSUMPTIONS = ["arity errors (Python TypeError from calling with the wrong number of arguments) are not 'arguments of any type' and are not generated",
               "NaN is excluded as a float argument (nan != nan: 'conforms to itself' is undefined)"]
REACH_FILES = ['d42/declaration/types/_int_schema.py', 'd42/declaration/types/_float_schema.py', 'd42/declaration/types/_str_schema.py', 'd42/declaration/types/_list_schema.py', 'd42/declaration/types/_dict_schema.py', 'd42/declaration/types/_any_schema.py']
TIERS = {"quick": dict(shards=16, maxlen=2, sample=64000, full4=False),
         "thorough": dict(shards=16, maxlen=3, sample=400000, full4=True)}


class Obj:
    def __repr__(self):
        return "<obj>"


def _wrong():
    from niltype import Nil
    return [None, "x", 1.5, 1, True, b"x", bytearray(b"x"), [], {}, ..., Nil, Obj(), (1, 2)]


def calls_for(kind, reduced=False):
    """List of (method, args) for a type."""
    from d42 import optional, schema
    W = _wrong()
    out = []

    def add(meth, argsets):
        for a in argsets:
            out.append((meth, a if isinstance(a, tuple) else (a,)))
    one = lambda xs: [(x,) for x in xs]  # noqa
    if kind == "bool":
        add("__call__", one([True, False] + W))
    elif kind == "int":
        vals = [0, 1, -1, 5, 2 ** 63, True]
        add("__call__", one(vals + W))
        add("min", one(vals + W))
        add("max", one(vals + W))
    elif kind == "float":
        vals = [0.0, 1.0, -1.0, 0.5, 2.5, float("inf"), float("-inf"), 1e308, 0.3, 0.1 + 0.2, math.nextafter(1.0, 2.0)]
        add("__call__", one(vals + W))
        add("min", one(vals + W))
        add("max", one(vals + W))
        add("precision", one([1, 2, 15, 0, 16, -1, True, False, 2 ** 70] + W))
    elif kind == "str":
        vals = ["", "a", "ab", "abc", "zab"]
        add("__call__", one(vals + W))
        lens1 = [0, 1, 2, 3, -1, True, 2 ** 70]
        add("len", one(lens1 + W))
        pairs = [(0, ...), (2, ...), (-1, ...), (..., 0), (..., 2), (..., 5), (..., -1), (1, 3), (2, 2), (3, 1), (..., ...),
                 ("a", ...), (..., "a"), (1, "a"), ("a", 2), (None, 2), (1, None), (1.0, 2), (1, 2.0), (True, False),
                 ([], ...), (..., {}), (0, 0)]
        from niltype import Nil
        pairs += [(1, Nil), (Nil, 1), (..., Nil), (Nil, Nil)]
        add("len", pairs)
        add("alphabet", one(["ab", "abc", "", "z", "ba"] + W))
        add("contains", one(["a", "ab", "z", "", "abc"] + W))
        add("regex", one(["a+", "^ab$", "z", "", "(", "a{4294967296}", "a{2,1}", "(?P<n>a)(?P<n>b)", "[z-a]", "\\", "^a.c$"] + W))
    elif kind in ("bytes", "uuid4", "datetime", "date"):
        good = {"bytes": [b"", b"ab"],
                "uuid4": [_uuid.UUID("5a1f2e0c-9d3b-4c7a-8f21-0123456789ab"), _uuid.UUID("5a1f2e0c-9d3b-1c7a-8f21-0123456789ab"),
                          _uuid.UUID(int=0),
                          # version nibble 4 but not an RFC 4122 variant: .version is None, so not a v4 UUID
                          _uuid.UUID("5a1f2e0c-9d3b-4c7a-0f21-0123456789ab")],
                "datetime": [_dt.datetime(2020, 1, 2, 3, 4), _dt.datetime(2020, 1, 2, tzinfo=_dt.timezone.utc)],
                "date": [_dt.date(2020, 1, 2), _dt.datetime(2020, 1, 2, 3, 4)]}[kind]
        add("__call__", one(good + W + [_dt.date(2020, 1, 2), "5a1f2e0c-9d3b-4c7a-8f21-0123456789ab"]))
    elif kind == "list":
        i1, s1 = schema.int(1), schema.str("a")
        elems = [[], [i1], [i1, s1], [schema.int, ...], [..., schema.int], [..., schema.int, ...], [...], [..., ...],
                 [1], [i1, ..., s1], [..., i1, s1], [i1, s1, ...], [schema.int, 2], [None], [[schema.int]], [..., ..., i1],
                 schema.int, schema.list(schema.int), schema.any, [schema.int.min(0)], [schema.any, i1], [schema.any],
                 [i1, schema.any, s1]]
        add("__call__", one(elems + W))
        lens1 = [0, 1, 2, 3, -1, True]
        add("len", one(lens1 + [None, "x", 1.5, ..., [], Obj()]))
        pairs = [(0, ...), (1, ...), (2, ...), (3, ...), (..., 0), (..., 1), (..., 2), (..., 5), (1, 3), (2, 2), (3, 1), (0, 0),
                 (..., ...), ("a", ...), (..., "a"), (1, None), (None, 1), (1.0, 2), (-1, ...), (..., -1)]
        add("len", pairs)
    elif kind == "dict":
        i1 = schema.int(1)
        ds = [{}, {"a": i1}, {"a": i1, "b": schema.str("x")}, {"a": schema.int}, {"a": i1, ...: ...}, {...: ...}, {...: i1},
              {"a": ...}, {optional("a"): i1}, {"a": 1}, {"a": None}, {1: i1, True: schema.str}, {None: i1}, {(1, 2): i1},
              {optional("a"): i1, "a": schema.str}, {"a": {"b": i1}}, {"a": [i1]}]
        add("__call__", one(ds + W))
    elif kind == "any":
        add("__call__", [(schema.int,), (schema.int, schema.str), (schema.any(schema.int), schema.none), (schema.any,),
                         (1,), (schema.int, 1), (None,), (schema.int, None), ([schema.int],), (schema.int, ...), (...,),
                         ("x",), (Obj(),), ({},)])
    if reduced:
        # keep a representative quarter per method (valid first, then a few wrong ones)
        keep = []
        seen = {}
        for m, a in out:
            n = seen.get(m, 0)
            seen[m] = n + 1
            if n < 6 or n % 5 == 0:
                keep.append((m, a))
        out = keep
    return out


KINDS = ("bool", "int", "float", "str", "bytes", "uuid4", "datetime", "date", "list", "dict", "any")


def show_arg(a):
    from d42.declaration.types import Schema
    if isinstance(a, Schema):
        return {"$schema": repr(a)[:80]}
    if isinstance(a, list):
        return [show_arg(x) for x in a]
    if isinstance(a, dict):
        return {"$dict": [[show_arg(k), show_arg(v)] for k, v in a.items()]}
    if type(a).__name__ == "optional":
        return {"$optional": repr(a)}
    return enc(a)


def show_chain(kind, chain):
    return {"type": kind, "chain": [[m, [show_arg(x) for x in a]] for m, a in chain]}


def state_of(s):
    return (dec.fingerprint(s), repr(s))


def is_nan_arg(args):
    return any(isinstance(a, float) and a != a for a in args)


def run_chain(ctx, kind, chain):
    """Execute one chain, checking every call."""
    from d42 import schema, validate
    from d42.declaration import DeclarationError
    s = getattr(schema, kind)
    declared = set()
    ctx.count("chains_run")
    for i, (meth, args) in enumerate(chain):
        before = state_of(s)
        ctx.count("calls_observed")
        try:
            if meth == "__call__":
                r = s(*args)
            else:
                r = getattr(s, meth)(*args)
            outcome = "returned"
        except DeclarationError:
            outcome = "declaration_error"
        except RecursionError:
            return
        except Exception as e:  # noqa
            outcome = "other"
            ctx.violation(f"non_declaration_error:{type(e).__name__}:{kind}.{meth}", {
                **show_chain(kind, chain[:i + 1]), "exc": f"{type(e).__name__}: {str(e)[:160]}", "step": i,
                "method": f"{kind}.{meth}", "arg_types": [type(a).__name__ for a in args]})
        ctx.table("outcomes", f"{kind}.{meth}|{outcome}")
        if outcome != "returned":
            after = state_of(s)
            ctx.count("receiver_unchanged_checked")
            if after != before:
                ctx.violation("receiver_changed_by_failed_call", {**show_chain(kind, chain[:i + 1]),
                                                                  "before": before[1][:200], "after": after[1][:200]})
            return
        # returned
        from d42.declaration.types import Schema
        if not isinstance(r, Schema):
            ctx.violation("declaration_returned_non_schema", {**show_chain(kind, chain[:i + 1]), "got": repr(r)[:100]})
            return
        if state_of(s) != before:
            ctx.violation("receiver_changed_by_successful_call", {**show_chain(kind, chain[:i + 1]),
                                                                  "before": before[1][:200], "after": repr(s)[:200]})
        if meth in declared:
            ctx.violation(f"redeclaration_accepted:{kind}.{meth}", {**show_chain(kind, chain[:i + 1]), "step": i,
                                                                    "result": repr(r)[:200]})
        declared.add(meth)
        s = r
        # self-consistency of a carried value
        try:
            spec = dec.decode(s)
        except dec.DecodeError:
            ctx.count("undecodable_result")
            continue
        # an exact element list (no ...) fixes the length: a len form that does not admit it contradicts it
        if spec["k"] == "list" and spec.get("form") == "elems" and "..." not in spec["elems"] and spec.get("len") is not None:
            from ..spec import len_ok
            ctx.count("exact_list_len_checked")
            if not len_ok(spec["len"], len(spec["elems"])):
                ctx.violation("len_contradicts_exact_element_list", {**show_chain(kind, chain[:i + 1]), "result": repr(s)[:200],
                                                                     "elements": len(spec["elems"]), "len": list(spec["len"])})
        try:
            has, val = carried_value(spec)
        except Exception:
            has = False
        if has and spec["k"] != "none":
            ctx.count("carried_value_checked")
            try:
                res = validate(s, val)
                errs = res.get_errors()
            except Exception as e:  # noqa
                ctx.violation("validate_raised_on_carried_value", {**show_chain(kind, chain[:i + 1]),
                                                                   "exc": f"{type(e).__name__}: {str(e)[:120]}"})
                continue
            ra = accepts(spec, val)
            if errs or ra is False:
                ctx.violation(f"carried_value_does_not_conform:{kind}", {
                    **show_chain(kind, chain[:i + 1]), "result": repr(s)[:200], "value": enc(val),
                    "validator_errors": [repr(e)[:160] for e in errs[:3]], "reference": repr(ra),
                    "error_kinds": sorted({type(e).__name__ for e in errs})})


def all_chains(kind, n, reduced=False):
    calls = calls_for(kind, reduced)
    return itertools.product(calls, repeat=n)


def run_shard(ctx):
    p = ctx.params
    idx = 0
    # exhaustive part
    for kind in KINDS:
        for n in range(1, p["maxlen"] + 1):
            for chain in all_chains(kind, n):
                idx += 1
                if idx % ctx.nshards != ctx.shard:
                    continue
                if ctx.only is not None and idx != ctx.only:
                    continue
                if any(is_nan_arg(a) for _, a in chain):
                    continue
                ctx.case = idx
                ctx.count("evaluations")
                ctx.count("exhaustive_chains")
                ctx.count("cases_seen")
                if n >= 2:
                    ctx.count("distinct_by_construction")  # every enumerated chain is distinct by construction
                if idx % 5000 == 1:
                    ctx.sample(show_chain(kind, chain))
                run_chain(ctx, kind, chain)
    if p["full4"]:
        for kind in KINDS:
            for chain in all_chains(kind, 4, reduced=True):
                idx += 1
                if idx % ctx.nshards != ctx.shard:
                    continue
                if ctx.only is not None and idx != ctx.only:
                    continue
                ctx.case = idx
                ctx.count("evaluations")
                ctx.count("exhaustive_len4_reduced")
                ctx.count("cases_seen")
                ctx.count("distinct_by_construction")
                run_chain(ctx, kind, chain)
    # seeded sample of longer chains (valid-biased so that later steps are reached)
    base = 10 ** 9
    per = p["sample"] // ctx.nshards
    for j in range(per):
        case = base + ctx.shard * per + j
        if ctx.only is not None and case != ctx.only:
            continue
        rng = case_rng(ctx.seed, "C10", 0, case)
        kind = rng.choice(("int", "float", "str", "str", "str", "list", "list", "float", "dict", "any", "bool", "uuid4"))
        calls = calls_for(kind)
        n = rng.choice((3, 3, 4))
        chain = tuple(rng.choice(calls) for _ in range(n))
        ctx.case = case
        ctx.count("evaluations")
        ctx.count("sampled_chains")
        ctx.distinct([kind, [[m, repr(a)[:60]] for m, a in chain]], True)
        run_chain(ctx, kind, chain)


def required(m, tier):
    c = m["counters"]
    out = []
    if c.get("calls_observed", 0) == 0:
        out.append("no declaration call observed")
    if c.get("carried_value_checked", 0) == 0:
        out.append("self-consistency oracle never evaluated")
    if c.get("receiver_unchanged_checked", 0) == 0:
        out.append("no failing call observed")
    return out


def coverage_extra(m, tier):
    return {"exhaustive": True, "exhaustive_scope": "all chains up to the tier's maxlen over the stated universes; "
            "longer chains are sampled (quick) / enumerated over the reduced universe (thorough)"}
