"""C03 - every validation error is true and points at the offending sub-value."""
import math
import re

from .. import oracles as O
from .. import probes
from ..common import enc
from ..gen_spec import Profile, gen_spec
from ..ref import PYTYPE, UNJUDGED, accepts, float_value_eq
from ..spec import ELL, len_bounds, list_form, nontrivial, shape, show

LEVEL = "exploration"
RULE = ("cases = random specs pushed to depth>=2 with >=2 siblings per container and unique leaves, x witnesses, one-step "
        "perturbations at every depth and zoo values; for every error of every rejected pair: th.get(value, error.path) is the "
        "reported sub-value, the fact named by the error kind is true of it (17 predicates), the quoted parameter is declared at "
        "a schema position governing that path, the rendered message is a str naming the path. A class-level post-condition on every "
        "Validator.visit_* asserts returned error paths extend the path passed in. Distinct by abstract spec shape; non-trivial = "
        ">=1 constraint or nesting.")
ASSUMPTIONS = ["sub-value identity is `is`, falling back to (same type, ==, same repr)",
               "positions under a contains-window or an any-alternative are governed by a *set* of candidate sub-specs",
               "float tolerance zones are not judged (UNJUDGED)"]
TIERS = {"quick": dict(shards=16, cases=6000), "thorough": dict(shards=16, cases=50000)}

PROF = Profile(max_depth=4, nonfinite=False, unique_leaves=True, p_value=0.35,
               kinds={"none": 1, "bool": 2, "int": 7, "float": 6, "str": 10, "list": 14, "dict": 14, "any": 4,
                      "bytes": 2, "uuid4": 3, "datetime": 2, "date": 2, "alias": 2})

FREE = "FREE"


def setup(ctx):
    ctx._sink = []
    ctx._roots = []
    SV = probes.mod("d42.substitution._validator").SubstitutorValidator

    def on_root(validator, schema, res):
        if isinstance(validator, SV):
            ctx._roots.append(res)
    ctx._installed = (probes.install_path_prefix(ctx, on_root) + probes.install_error_ctor(ctx)
                      + probes.install_substitution_capture(ctx, ctx._sink))
    ctx._reach = probes.Reach()
    ctx._reach.start()
    declare_extending_visitors(ctx)


def declare_extending_visitors(ctx):
    """What an application that has its own error kinds declares once at import time: an `extend=True` formatter (and
    validator) subclass that registers a public method for the new kind and keeps private helpers for its own
    rendering.  The default formatter's messages for the built-in errors must go on naming the error path."""
    from d42.validation import Formatter, Validator

    class RvCompactFormatter(Formatter, extend=True):
        def format_rv_custom_error(self, error):
            return "rv custom error" + self._at_path(error.path)

        def _at_path(self, path):          # private rendering helpers of the subclass itself
            return ""

        def _format_path(self, path):
            return "<?>"

    class RvValidator(Validator, extend=True):
        def visit_rv_custom(self, schema, *, value=None, path=None, **kwargs):
            return self.make_validation_result()

    ctx.count("extending_visitor_subclasses_declared", 2)
    ctx._extenders = (RvCompactFormatter, RvValidator)


def teardown(ctx):
    ctx._reach.stop()
    ctx.extra["reach"] = ctx._reach.dump()
    probes.uninstall(ctx._installed)


def resolve(node):
    """Expand alias / any at a position -> list of candidate nodes (any nodes themselves included)."""
    out = []
    stack = [node]
    while stack:
        n = stack.pop()
        if n == FREE:
            out.append(FREE)
            continue
        k = n["k"]
        if k == "alias":
            stack.append(n["target"])
        elif k == "any":
            out.append(n)
            if n.get("types") is None:
                out.append(FREE)
            else:
                stack.extend(n["types"])
        else:
            out.append(n)
    return out


def same_key(a, b):
    try:
        return a in {b: 0}
    except TypeError:
        return False


def step(nodes, key, container):
    """Candidate nodes governing container[key], given candidate nodes for the container."""
    out = []
    for n in nodes:
        if n == FREE:
            out.append(FREE)
            continue
        k = n["k"]
        if k == "list" and isinstance(container, list) and isinstance(key, int) and not isinstance(key, bool):
            form, els = list_form(n)
            m = len(els)
            if form == "untyped":
                out.append(FREE)
            elif form == "typed":
                out.append(els[0])
            elif form in ("exact", "head"):
                if key < m:
                    out.append(els[key])
                elif form == "head":
                    out.append(FREE)
            elif form == "tail":
                off = max(0, len(container) - m)
                if 0 <= key - off < m:
                    out.append(els[key - off])
                else:
                    out.append(FREE)
            elif form == "contains":
                out.extend(els)
                out.append(FREE)
        elif k == "dict" and isinstance(container, dict):
            if n.get("keys") is None:
                out.append(FREE)
                continue
            hit = False
            for dk, sub, opt in n["keys"]:
                if same_key(dk, key):
                    out.append(sub)
                    hit = True
            if not hit and n.get("relaxed"):
                out.append(FREE)
    res = []
    for n in out:
        res.extend(resolve(n))
    return res


def locate(spec, value, keys):
    """Follow keys from the root.  -> (ok, sub_value, candidate nodes)"""
    nodes = resolve(spec)
    cur = value
    for key in keys:
        try:
            nxt = cur[key]
        except Exception:
            return False, None, []
        nodes = step(nodes, key, cur)
        cur = nxt
    return True, cur, nodes


def same_value(a, b):
    if a is b:
        return True
    try:
        return type(a) is type(b) and bool(a == b) and repr(a) == repr(b)
    except Exception:
        return False


def lit_same(a, b):
    if type(a) is not type(b):
        return False
    if isinstance(a, float) and a != a and b != b:
        return True
    return a == b


def names_path(msg, keys):
    """Does the message name the path?  Tolerant of the rendering style: every key must occur (as repr or str),
    in order."""
    pos = 0
    for k in keys:
        hits = [msg.find(t, pos) for t in (repr(k), str(k)) if t and msg.find(t, pos) >= 0]
        if not hits:
            return False
        i = min(hits)
        pos = i + 1
    return True


def render_path(keys):
    return "_" + "".join(f"[{k!r}]" for k in keys)


def check_error(ctx, spec, value, e, fm):
    """-> list of (kind, info) problems for this error."""
    name = type(e).__name__
    probs = []
    keys = probes.path_keys(e.path)
    ok, sub, nodes = locate(spec, value, keys)
    if not ok:
        return [("path_does_not_resolve", {"path": repr(keys)})]
    if not same_value(sub, e.actual_value):
        probs.append(("path_points_at_other_value", {"path": repr(keys), "at_path": enc(sub),
                                                     "reported": enc(e.actual_value)}))
    real_nodes = [n for n in nodes if n != FREE]
    if not real_nodes:
        probs.append(("error_at_unconstrained_position", {"path": repr(keys)}))

    def declared(pred):
        return any(pred(n) for n in real_nodes)

    fact = None      # True / False / None (not judged)
    quoted = None
    if name == "TypeValidationError":
        t = e.expected_type
        fact = not isinstance(sub, t)
        quoted = declared(lambda n: PYTYPE.get(n["k"]) is t)
    elif name == "ValueValidationError":
        ev = e.expected_value
        cands = [n for n in real_nodes if n.get("value") is not None and lit_same(n["value"], ev)]
        quoted = bool(cands)
        if isinstance(ev, float) and isinstance(sub, float):
            rs = [float_value_eq(sub, ev, n.get("precision")) for n in cands] or [float_value_eq(sub, ev, None)]
            if all(r is UNJUDGED for r in rs):
                fact = None
            else:
                fact = any(r is False for r in rs)
        else:
            try:
                fact = bool(sub != ev)
            except Exception:
                fact = None
    elif name == "MinValueValidationError":
        fact = bool(sub < e.min_value)
        quoted = declared(lambda n: n["k"] in ("int", "float") and n.get("min") is not None and lit_same(n["min"], e.min_value))
    elif name == "MaxValueValidationError":
        fact = bool(sub > e.max_value)
        quoted = declared(lambda n: n["k"] in ("int", "float") and n.get("max") is not None and lit_same(n["max"], e.max_value))
    elif name == "LengthValidationError":
        fact = len(sub) != e.length
        quoted = declared(lambda n: n.get("len") is not None and n["len"][0] == "eq" and n["len"][1] == e.length)
    elif name == "MinLengthValidationError":
        fact = len(sub) < e.min_length
        quoted = declared(lambda n: n.get("len") is not None and n["len"][0] in ("min", "range") and n["len"][1] == e.min_length)
    elif name == "MaxLengthValidationError":
        fact = len(sub) > e.max_length
        quoted = declared(lambda n: n.get("len") is not None and (
            (n["len"][0] == "max" and n["len"][1] == e.max_length) or
            (n["len"][0] == "range" and n["len"][2] == e.max_length)))
    elif name == "AlphabetValidationError":
        fact = isinstance(sub, str) and any(ch not in e.alphabet for ch in sub)
        quoted = declared(lambda n: n["k"] == "str" and n.get("alphabet") is not None and n["alphabet"] == e.alphabet)
    elif name == "SubstrValidationError":
        fact = isinstance(sub, str) and e.substr not in sub
        quoted = declared(lambda n: n["k"] == "str" and n.get("substr") == e.substr and n.get("substr") is not None)
    elif name == "RegexValidationError":
        fact = isinstance(sub, str) and re.search(e.pattern, sub) is None
        quoted = declared(lambda n: n["k"] == "str" and n.get("pattern") == e.pattern and n.get("pattern") is not None)
    elif name == "MissingElementValidationError":
        fact = isinstance(sub, list) and isinstance(e.index, int) and e.index >= len(sub)

        def pred(n):
            if n["k"] != "list":
                return False
            form, els = list_form(n)
            return form in ("exact", "head", "tail", "contains") and len(els) > 0 and 0 <= e.index
        quoted = declared(pred)
    elif name == "ExtraElementValidationError":
        def pred(n):
            if n["k"] != "list":
                return False
            form, els = list_form(n)
            return form == "exact" and e.index >= len(els)
        fact = isinstance(sub, list) and isinstance(e.index, int) and 0 <= e.index < len(sub)
        quoted = declared(pred)
    elif name == "MissingKeyValidationError":
        fact = isinstance(sub, dict) and e.missing_key not in sub
        quoted = declared(lambda n: n["k"] == "dict" and n.get("keys") is not None and any(
            same_key(dk, e.missing_key) and not opt for dk, _, opt in n["keys"]))
    elif name == "ExtraKeyValidationError":
        fact = isinstance(sub, dict) and e.extra_key in sub
        quoted = declared(lambda n: n["k"] == "dict" and n.get("keys") is not None and not n.get("relaxed") and not any(
            same_key(dk, e.extra_key) for dk, _, _ in n["keys"]))
    elif name == "SchemaMismatchValidationError":
        anys = [n for n in real_nodes if n["k"] == "any" and n.get("types") is not None]
        quoted = False
        fact = None
        for n in anys:
            flat = flatten(n)
            if len(flat) == len(e.expected_schemas):
                quoted = True
                rs = [accepts(t, sub) for t in flat]
                if any(r is True for r in rs):
                    fact = False if fact is None else fact
                elif all(r is False for r in rs):
                    fact = True
        if fact is None and not quoted:
            fact = None
    elif name == "InvalidUUIDVersionValidationError":
        fact = getattr(sub, "version", None) == e.actual_version and e.actual_version != 4 and e.expected_version == 4
        quoted = declared(lambda n: n["k"] == "uuid4")
    else:
        probs.append(("unknown_error_class", {"class": name}))
    ctx.table("error_truth_checked", name)
    if fact is False:
        probs.append(("stated_fact_false", {"error": repr(e)[:300], "sub": enc(sub)}))
    if quoted is False:
        probs.append(("quoted_parameter_not_declared_here", {"error": repr(e)[:300], "path": repr(keys),
                                                             "candidates": [show(n) for n in real_nodes[:4]]}))
    # rendered message
    try:
        msg = e.format(fm)
    except Exception as ex:
        probs.append(("format_raised(C08)", {"exc": O.exc_info(ex)}))
        return probs
    if not isinstance(msg, str) or not msg:
        probs.append(("message_not_text", {"msg": enc(msg)}))
    else:
        if name == "MissingKeyValidationError":
            want_keys = keys + [e.missing_key]
        elif name == "MissingElementValidationError":
            want_keys = keys + [e.index]
        else:
            want_keys = keys
        if want_keys and not names_path(msg, want_keys):
            probs.append(("message_does_not_name_path", {"msg": msg[:300], "expected_path": render_path(want_keys)}))
    return probs


def flatten(n):
    out = []
    for t in n["types"]:
        if t["k"] == "any" and t.get("types") is not None and not t.get("wrap"):
            out.extend(flatten(t))
        else:
            out.append(t)
    return out


def run_case(ctx, rng, case):
    from d42.validation import Formatter
    spec = gen_spec(rng, PROF, depth=rng.choice((1, 2, 2, 3, 3, 4)))
    schema = O.try_build(ctx, spec)
    if schema is None:
        return
    ctx.distinct(shape(spec), nontrivial(spec))
    fm = Formatter()
    sampled = False
    for v, origin in O.candidate_values(ctx, spec, rng, max_pert=100 if ctx.tier == "quick" else 200, zoo_n=2):
        errs, exc = O.real_validate(schema, v)
        if exc is not None:
            ctx.count("validate_raised(C08)")
            continue
        # the same pair through substitution: errors behind a SubstitutionError are judged by the same table
        if origin[0] != "zoo":
            del ctx._sink[:]
            del ctx._roots[:]
            try:
                from d42 import substitute
                substitute(schema, v)
                ctx.count("substitute_returned")
            except Exception:
                ctx.count("substitute_raised")
            # only the validation of the *root* value has paths relative to the root (the substitutor then
            # visits sub-schemas with sub-values, whose paths are relative to those)
            ctx.count("probe_subst_results_seen", len(ctx._sink))
            for res in ctx._roots[:1]:
                for e in res.get_errors():
                    ctx.count("substitution_errors_checked")
                    ctx.table("subst_kind_x_depth", f"{type(e).__name__}|{min(len(e.path), 3)}")
                    for kind, info in check_error(ctx, spec, v, e, fm):
                        if kind.endswith("(C08)"):
                            continue
                        info.update({"spec": show(spec), "value": enc(v), "origin": list(map(str, origin)),
                                     "error_class": type(e).__name__, "via": "substitute"})
                        ctx.violation(f"subst:{kind}:{type(e).__name__}", info)
        if not errs:
            continue
        ctx.count("rejected_pairs")
        if not sampled and case % 400 == 0:
            sampled = True
            ctx.sample({"repr": repr(schema)[:300], "value": enc(v), "errors": [repr(e)[:160] for e in errs[:3]]})
        for e in errs:
            ctx.count("errors_checked")
            try:
                depth = len(e.path)
            except Exception:
                depth = -1
            ctx.table("kind_x_depth", f"{type(e).__name__}|{min(depth, 3)}")
            for kind, info in check_error(ctx, spec, v, e, fm):
                if kind.endswith("(C08)"):
                    ctx.count(kind)
                    continue
                info.update({"spec": show(spec), "value": enc(v), "origin": list(map(str, origin)),
                             "error_class": type(e).__name__, "depth": depth})
                ctx.violation(f"{kind}:{type(e).__name__}", info)


KINDS = ["TypeValidationError", "ValueValidationError", "MinValueValidationError", "MaxValueValidationError",
         "LengthValidationError", "MinLengthValidationError", "MaxLengthValidationError", "AlphabetValidationError",
         "SubstrValidationError", "RegexValidationError", "MissingElementValidationError",
         "ExtraElementValidationError", "MissingKeyValidationError", "ExtraKeyValidationError",
         "SchemaMismatchValidationError", "InvalidUUIDVersionValidationError"]


def required(m, tier):
    c = m["counters"]
    out = []
    if c.get("errors_checked", 0) == 0:
        out.append("no error was checked")
    if c.get("substitution_errors_checked", 0) == 0:
        out.append("no substitution error was captured (make_substitution_error wrapper bypassed?)")
    if c.get("probe_path_prefix", 0) == 0:
        out.append("visit_path_prefix probe never evaluated (wrappers bypassed?)")
    t = m["tables"].get("kind_x_depth", {})
    for k in KINDS:
        deep = sum(v for key, v in t.items() if key.startswith(k + "|") and not key.endswith("|0"))
        if deep == 0:
            out.append(f"error kind {k} never observed at depth >= 1")
    return out


def coverage_extra(m, tier):
    files = ["d42/validation/_validator.py", "d42/validation/_formatter.py", "d42/substitution/_validator.py"]
    return {"reach": probes.reach_summary(m["extra"].get("reach", {}), files)}
