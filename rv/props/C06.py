"""C06 - repr(schema) is DSL source that rebuilds an equal schema."""
import ast
import datetime as _dt
import json
import os
import subprocess
import sys
import uuid as _uuid

from .. import oracles as O
from ..combine import merge_spec, required_spec
from ..common import REPO, VERIF, case_rng
from ..decode import fingerprint
from ..gen_spec import Profile, gen_declared_dict, gen_spec
from ..spec import depth, nontrivial, shape, show

LEVEL = "exploration"
RULE = ("programs = DSL-built schemas (no alias/custom type): every type x value+constraint combos, all len forms, nested lists/dicts "
        "to depth 4, hashable keys of many kinds (str with quotes/newlines/unicode, int, None, tuples, bytes, finite floats), optional "
        "flags, relaxed marker anywhere in key order, unions, results of d1+d2 and make_required; oracle: repr==represent, deterministic, "
        "text uses only the names schema/optional/UUID/datetime (ast audit), eval(text) rebuilds a schema that is ==, "
        "fingerprint-equal and prints identically; thorough replays texts in fresh interpreters under several PYTHONHASHSEED values. "
        "Distinct by abstract spec shape; non-trivial = >=1 constraint or nesting level.")
ASSUMPTIONS = ["non-finite floats (repr 'inf'/'nan' is not an expression over the allowed names) and frozenset keys are excluded",
               "aliases and custom types are excluded by the property",
               "bool dict keys are excluded (True/1 collapse in a dict literal; Python semantics)"]
REACH_FILES = ['d42/representation/_representor.py']
TIERS = {"quick": dict(shards=16, cases=20000, xproc=0), "thorough": dict(shards=16, cases=160000, xproc=40)}

KINDS = {"none": 2, "bool": 3, "int": 8, "float": 8, "str": 10, "list": 10, "dict": 10, "any": 4,
         "bytes": 3, "uuid4": 3, "datetime": 3, "date": 3}
PROF = Profile(max_depth=4, kinds=KINDS, repr_safe=True, nonfinite=False, p_value=0.4, key_pool="wide", p_unsat=0.1)

ALLOWED = {"schema", "optional", "UUID", "datetime"}


def env():
    from d42 import optional, schema
    return {"schema": schema, "optional": optional, "UUID": _uuid.UUID, "datetime": _dt}


def free_names(text):
    tree = ast.parse(text, mode="eval")
    return {n.id for n in ast.walk(tree) if isinstance(n, ast.Name)}


def derive(ctx, rng):
    from d42.utils import make_required
    r = rng.random()
    if r < 0.07:
        # unions built with the | operator, in every association (the text must rebuild an equal schema)
        from ..combine import union_spec
        ops = [gen_spec(rng, PROF, depth=rng.randint(0, 1)) for _ in range(rng.choice((2, 3, 4)))]
        built = [O.try_build(ctx, s) for s in ops]
        if any(b is None for b in built):
            return None
        if len(built) == 2:
            comb = built[0] | built[1]
        elif len(built) == 3:
            comb = rng.choice((lambda a, b, c: (a | b) | c, lambda a, b, c: a | (b | c)))(*built)
        else:
            comb = rng.choice((lambda a, b, c, d: (a | b) | (c | d), lambda a, b, c, d: a | (b | (c | d)),
                               lambda a, b, c, d: ((a | b) | c) | d))(*built)
        return union_spec(*ops), comb, "or"
    if r < 0.8:
        spec = gen_spec(rng, PROF)
        # refinements are declared in a random order (the DSL accepts any order, C11): the text must not depend on it
        s = O.try_build(ctx, spec, order_rng=rng if rng.random() < 0.5 else None)
        return (spec, s, "dsl") if s is not None else None
    if r < 0.9:
        d1, d2 = gen_declared_dict(rng, PROF, depth=rng.randint(1, 3)), gen_declared_dict(rng, PROF, depth=rng.randint(1, 3))
        s1, s2 = O.try_build(ctx, d1), O.try_build(ctx, d2)
        if s1 is None or s2 is None:
            return None
        return merge_spec(d1, d2), s1 + s2, "plus"
    d = gen_declared_dict(rng, PROF, depth=rng.randint(1, 3))
    s = O.try_build(ctx, d)
    if s is None:
        return None
    keys = None
    if d["keys"] and rng.random() < 0.5:
        keys = rng.sample([k for k, _, _ in d["keys"]], rng.randint(0, len(d["keys"])))
    try:
        return required_spec(d, keys), make_required(s, keys), "make_required"
    except Exception:
        ctx.count("make_required_raised(C13)")
        return None


def check_text(ctx, spec, s, how):
    from d42 import represent
    from d42.declaration.types import Schema
    info = {"how": how, "spec": show(spec)}
    try:
        text = repr(s)
        text2 = represent(s)
        text3 = repr(s)
    except Exception as e:
        ctx.violation("repr_raised", {**info, "exc": O.exc_info(e)})
        return None
    ctx.count("texts")
    info["text"] = text[:600]
    if not isinstance(text, str):
        ctx.violation("repr_not_str", info)
        return None
    if text != text2 or text != text3:
        ctx.violation("repr_not_deterministic_or_differs_from_represent", {**info, "represent": text2[:300]})
    try:
        names = free_names(text)
    except SyntaxError as e:
        ctx.violation("text_not_an_expression", {**info, "exc": str(e)[:120]})
        return text
    if not names <= ALLOWED:
        ctx.violation("text_uses_other_names", {**info, "names": sorted(names - ALLOWED)})
        return text
    try:
        rebuilt = eval(text, {"__builtins__": {}}, env())
    except Exception as e:
        ctx.violation(f"eval_raised:{type(e).__name__}", {**info, "exc": f"{type(e).__name__}: {str(e)[:200]}"})
        return text
    ctx.count("evaluated")
    if not isinstance(rebuilt, Schema):
        ctx.violation("eval_not_a_schema", {**info, "got": repr(rebuilt)[:100]})
        return text
    try:
        eq = (rebuilt == s) and (s == rebuilt)
    except Exception as e:
        ctx.violation("eq_raised", {**info, "exc": O.exc_info(e)})
        return text
    if not eq:
        ctx.violation("rebuilt_not_equal", {**info, "rebuilt": repr(rebuilt)[:300]})
    if fingerprint(rebuilt) != fingerprint(s):
        ctx.violation("rebuilt_fingerprint_differs", {**info, "rebuilt": repr(rebuilt)[:300]})
    if repr(rebuilt) != text:
        ctx.violation("rebuilt_prints_differently", {**info, "rebuilt": repr(rebuilt)[:300]})
    ctx.table("max_depth", str(depth(spec)))
    return text


def run_case(ctx, rng, case):
    d = derive(ctx, rng)
    if d is None:
        return
    spec, s, how = d
    ctx.distinct(shape(spec), nontrivial(spec))
    ctx.table("derivation", how)
    text = check_text(ctx, spec, s, how)
    if case % 700 == 0 and text:
        ctx.sample({"how": how, "text": text[:500]})
    # indent handling: represent(schema, indent=k) at a nesting offset is used for nested schemas; check
    # the public entry with an explicit indent too (text must still evaluate to an equal schema)
    if text and rng.random() < 0.2:
        from d42 import represent
        k = rng.choice((0, 2, 4, 8, 16))
        try:
            t2 = represent(s, indent=k)
            rb = eval(t2, {"__builtins__": {}}, env())
            ctx.count("indent_variants")
            if fingerprint(rb) != fingerprint(s):
                ctx.violation("indented_text_rebuilds_other_schema", {"text": t2[:400], "indent": k})
        except Exception as e:
            ctx.violation("indented_text_failed", {"indent": k, "exc": f"{type(e).__name__}: {str(e)[:160]}",
                                                   "text": text[:300]})
    # cross-process determinism (thorough): the first few cases of every shard
    n = ctx.params.get("xproc", 0)
    if n and text and (case // ctx.nshards) < n:
        xproc(ctx, case)


CHILD = r"""
import sys, json
sys.path.insert(0, %(repo)r); sys.path.insert(1, %(verif)r)
from rv.common import bootstrap, case_rng
bootstrap()
from rv.props import C06
from rv import runner
class Dummy(runner.Ctx):
    pass
ctx = Dummy("C06", "thorough", %(seed)d, 0, 1, {})
rng = case_rng(%(seed)d, "C06", 0, %(case)d)
d = C06.derive(ctx, rng)
print(json.dumps(None if d is None else repr(d[1])))
"""


def xproc(ctx, case):
    texts = []
    for hs in ("0", "1", "2", "4242"):
        envp = dict(os.environ, PYTHONHASHSEED=hs, PYTHONDONTWRITEBYTECODE="1")
        code = CHILD % {"repo": REPO, "verif": VERIF, "seed": ctx.seed, "case": case}
        try:
            r = subprocess.run([sys.executable, "-c", code], capture_output=True, text=True, timeout=120, env=envp)
            texts.append(json.loads(r.stdout.strip().splitlines()[-1]) if r.returncode == 0 else ("ERR", r.stderr[-300:]))
        except Exception as e:  # noqa
            texts.append(("ERR", repr(e)))
    ctx.count("xproc_cases")
    if any(isinstance(t, tuple) for t in texts):
        ctx.count("xproc_child_failed")
        return
    if len(set(texts)) != 1:
        ctx.violation("text_depends_on_hash_seed", {"texts": [t[:200] for t in texts if t]})


def required(m, tier):
    c = m["counters"]
    out = []
    if c.get("evaluated", 0) == 0:
        out.append("no text was evaluated")
    if tier == "thorough" and c.get("xproc_cases", 0) == 0:
        out.append("cross-process determinism never checked")
    if c.get("xproc_child_failed", 0) > 0:
        out.append(f"{c['xproc_child_failed']} cross-process children failed")
    return out
