"""C08 - validation is total: any Python value yields a result, and failing is reporting."""
from .. import oracles as O
from ..common import enc
from ..gen_spec import Profile, gen_spec
from ..gen_value import Unsat, inject_positions, witness, zoo
from ..spec import nontrivial, shape, show

LEVEL = "exploration"
RULE = ("cases = random schema specs (profile weighted to what runs after a type check: float value+precision, "
        "uuid4, datetime/date, str constraints, list/dict forms) x the hostile zoo (~95 stdlib values and opaque "
        "objects) used alone and injected at every position of conforming values; oracle = exception-freedom of "
        "validate / format / format_result / validate_or_fail plus the arithmetic relation between get_errors() "
        "and the ValidationException text. Distinct by abstract spec shape; non-trivial = >=1 constraint or nesting.")
ASSUMPTIONS = ["objects whose own special methods raise are excluded, as the property says",
               "self-referential containers are tried alone only against scalar/any/untyped positions (RecursionError from "
               "Python's own repr/== of a cyclic value is not a d42 defect)"]
REACH_FILES = ['d42/validation/_validator.py', 'd42/validation/_formatter.py', 'd42/validation/__init__.py']
TIERS = {"quick": dict(shards=16, cases=4000), "thorough": dict(shards=16, cases=30000)}

PROF = Profile(max_depth=3, nonfinite=True, p_value=0.4, wrap=0.06,
               kinds={"none": 1, "bool": 2, "int": 6, "float": 12, "str": 8, "list": 9, "dict": 9, "any": 4,
                      "bytes": 3, "uuid4": 4, "datetime": 4, "date": 4, "alias": 2})

SKIP_ALONE = ()


def show(spec):   # noqa: F811  (specs of custom cases are already plain)
    from ..spec import show as _show
    return spec if spec.get("k") == "custom" else _show(spec)


def check_total(ctx, spec, schema, v, origin):
    """Run all C08 oracles on (schema, v)."""
    from d42 import ValidationException, validate, validate_or_fail
    from d42.validation import Formatter, format_result
    ctx.count("validate_calls")
    try:
        res = validate(schema, v)
        errs = res.get_errors()
    except RecursionError:
        ctx.count("recursion_skipped")
        return
    except Exception as e:
        xi = O.exc_info(e)
        ctx.violation(f"validate_raised:{xi['type']}@{xi['where']}", {"spec": show(spec), "value": enc(v), "origin": origin,
                                          "exc": O.exc_info(e), "repr": repr(schema)[:300]})
        return
    if not isinstance(errs, list):
        ctx.violation("get_errors_not_list", {"spec": show(spec), "value": enc(v)})
        return
    if res.has_errors() != (len(errs) > 0):
        ctx.violation("has_errors_inconsistent", {"spec": show(spec), "value": enc(v)})
    fm = Formatter()
    for e in errs:
        ctx.count("errors_formatted")
        ctx.table("formatted", type(e).__name__)
        try:
            s = e.format(fm)
        except RecursionError:
            ctx.count("recursion_skipped")
            return
        except Exception as ex:
            ctx.violation("format_raised", {"spec": show(spec), "value": enc(v), "origin": origin,
                                            "error": type(e).__name__, "exc": O.exc_info(ex)})
            continue
        if not isinstance(s, str) or not s.strip():
            ctx.violation("format_empty", {"spec": show(spec), "value": enc(v), "error": type(e).__name__,
                                           "got": enc(s)})
    try:
        fr = format_result(res)
        if not isinstance(fr, list) or (len(fr) != (len(errs) + 1 if errs else 0)):
            ctx.violation("format_result_shape", {"spec": show(spec), "value": enc(v), "n_errors": len(errs),
                                                  "n_lines": len(fr) if isinstance(fr, list) else None})
    except RecursionError:
        ctx.count("recursion_skipped")
        return
    except Exception as ex:
        ctx.violation("format_result_raised", {"spec": show(spec), "value": enc(v), "exc": O.exc_info(ex)})
    ctx.count("validate_or_fail_calls")
    try:
        r = validate_or_fail(schema, v)
        if errs:
            ctx.violation("validate_or_fail_returned_despite_errors",
                          {"spec": show(spec), "value": enc(v), "returned": enc(r), "n_errors": len(errs)})
        elif r is not True:
            ctx.violation("validate_or_fail_not_True", {"spec": show(spec), "value": enc(v), "returned": enc(r)})
        else:
            ctx.count("vof_true")
    except ValidationException as ex:
        if not errs:
            ctx.violation("validate_or_fail_raised_without_errors", {"spec": show(spec), "value": enc(v),
                                                                     "msg": str(ex)[:200]})
        else:
            ctx.count("vof_raised")
            msg = str(ex)
            try:
                lines = [e.format(fm) for e in errs]
            except Exception:
                return
            expected = "".join("\n - " + ln for ln in lines)
            if msg != expected:
                # one line per error: compare item counts against the formatted lines
                if msg.count("\n - ") != expected.count("\n - ") or any(ln not in msg for ln in lines):
                    ctx.violation("validate_or_fail_message", {"spec": show(spec), "value": enc(v),
                                                               "n_errors": len(errs), "msg": msg[:300]})
    except RecursionError:
        ctx.count("recursion_skipped")
    except Exception as ex:
        ctx.violation("validate_or_fail_wrong_exception", {"spec": show(spec), "value": enc(v),
                                                           "exc": O.exc_info(ex)})


def custom_case(ctx, rng, case):
    """A self-validating custom type (documented style) at the root, behind an alias, and nested: totality there too."""
    from d42 import optional, schema
    from .. import custom
    il = custom.intlike(rng.choice((None, 3)))
    sch = rng.choice((il, schema.alias("Id", il), schema.list(il), schema.list([il, ...]), schema.dict({"k": il}),
                      schema.dict({optional("k"): il, ...: ...}), schema.any(il, schema.none), il | schema.str))
    ctx.table("custom_positions", type(sch).__name__)
    z = zoo()
    z.pop("big_str", None)
    spec = {"k": "custom", "repr": repr(sch)[:120]}
    for name in rng.sample(sorted(z), 25):
        v = z[name]
        for val, how in ((v, "alone"), ([v], "in_list"), ({"k": v}, "in_dict")):
            ctx.count("custom_type_calls")
            check_total(ctx, spec, sch, val, ["custom", how, name])


def run_case(ctx, rng, case):
    if case % 20 == 7:
        ctx.distinct(["custom", case % 160], True)
        return custom_case(ctx, rng, case)
    spec = gen_spec(rng, PROF)
    from .. import custom
    schema = O.try_build(ctx, spec, wrapper=custom.wrap)   # a few nodes are forwarding custom types (totality holds there too)
    if schema is None:
        return
    ctx.distinct(shape(spec), nontrivial(spec))
    if case % 7 == 3:
        # schemas that only exist as results of substitution must be total as well (they can hold states that
        # declaration cannot reach, e.g. an explicit type=Nil next to elements)
        try:
            from d42 import substitute
            schema = substitute(schema, witness(spec, rng))
            ctx.count("substitution_results_used")
        except Exception:
            pass
    z = zoo()
    names = sorted(z)
    if ctx.tier == "quick":
        names = rng.sample(names, 40)
        if case % 50 != 0:
            names = [n for n in names if n != "big_str"]
    if case % 300 == 0:
        ctx.sample({"spec": show(spec), "zoo_members": names[:8]})
    for name in names:
        ctx.table("zoo_alone", name)
        check_total(ctx, spec, schema, z[name], ["alone", name])
    # injected at positions of conforming values
    try:
        base = witness(spec, rng)
    except Unsat:
        ctx.count("witness_unsat")
        return
    check_total(ctx, spec, schema, base, ["witness"])
    positions = list(inject_positions(base))
    if not positions:
        return
    if len(positions) > 8:
        positions = rng.sample(positions, 8)
    inj_names = [n for n in names if n not in ("rec_list", "rec_dict", "big_str")]
    for setter, where in positions:
        for name in rng.sample(inj_names, min(len(inj_names), 12 if ctx.tier == "quick" else 30)):
            try:
                v = setter(z[name])
            except Exception:
                continue
            if v is None:
                continue
            ctx.count("injected")
            ctx.table("inject_position", where[0])
            check_total(ctx, spec, schema, v, ["inject", name, list(map(str, where))])


def required(m, tier):
    c = m["counters"]
    out = []
    if c.get("validate_calls", 0) == 0:
        out.append("validate never called")
    if c.get("errors_formatted", 0) == 0:
        out.append("no error was ever formatted")
    if c.get("vof_true", 0) == 0 or c.get("vof_raised", 0) == 0:
        out.append("validate_or_fail: one outcome class never observed")
    if c.get("injected", 0) == 0:
        out.append("no zoo member was injected into a conforming value")
    return out
