"""Random spec generators (profiles per property)."""
import datetime as _dt
import re
import string
import uuid as _uuid

from . import regexgen
from .spec import ELL, mk

INT_POOL = [0, 1, -1, 2, 3, 5, 7, -7, 10, 42, 100, -100, 255, 2 ** 31, -(2 ** 31), 2 ** 63 - 1,
            2 ** 63, -(2 ** 63), -(2 ** 63) - 1, 2 ** 64 + 3, -(2 ** 64) - 5, 10 ** 30]
INT_SMALL = [0, 1, -1, 2, 3, 5, 7, -7, 10, 42, 100, -100]
FLOAT_POOL = [0.0, 0.07, -0.07, 0.15, -0.15, 0.29, -0.29, 0.95, 1.5, -1.5, 2.5, 3.14159, 1e3, -1e3,
              123.456, 1e19, -1e19, 1e30, -1e30, 0.1, 0.2, 0.3, 1.0, -1.0, 5e-324, 1e-7]
FLOAT_SMALL = [0.0, 0.07, -0.07, 0.15, -0.15, 0.29, 0.95, 1.5, -1.5, 2.5, 3.14159, 123.456, 0.1, 0.3,
               1.0, -1.0]
ALPHABETS = ["ab", "abc", "x", "01", "aeiou", "xyz ", "a.b*", "éü", "ABCdef123", " ", "-_",
             string.ascii_lowercase, string.digits, "a\nb", "[]^$", "日本", "hello world", "aab", "xyzzy",
             string.ascii_lowercase + string.hexdigits]
NAMES = ["id", "name", "x", "y", "k", "items", "meta", "a b", "", "ключ", "a.b", "0", "type", "n1", "n2",
         "n3", "it's", 'q"q', "line\nbreak", "{id}", "a{b}c", "{}", "%s", "{0}"]
UUIDS = [_uuid.UUID("5a1f2e0c-9d3b-4c7a-8f21-0123456789ab"), _uuid.UUID("00000000-0000-4000-8000-000000000000"),
         _uuid.UUID("ffffffff-ffff-4fff-bfff-ffffffffffff")]
DATETIMES = [_dt.datetime(2020, 1, 2, 3, 4, 5), _dt.datetime(1999, 12, 31, 23, 59, 59, 999999),
             _dt.datetime(2024, 2, 29, 12, 0, tzinfo=_dt.timezone.utc),
             _dt.datetime(2001, 9, 9, 1, 46, 40, tzinfo=_dt.timezone(_dt.timedelta(hours=5, minutes=30)))]
DATES = [_dt.date(2020, 1, 2), _dt.date(1970, 1, 1), _dt.date(2024, 2, 29), _dt.date(9999, 12, 31)]
BYTES = [b"", b"a", b"\x00\xff", b"hello world", b"'\"\\"]


class Profile:
    """Knobs for the generator; properties override what they need."""
    max_depth = 3
    max_fan = 4
    kinds = {"none": 2, "bool": 3, "int": 8, "float": 8, "str": 10, "list": 10, "dict": 9, "any": 4,
             "bytes": 2, "uuid4": 2, "datetime": 2, "date": 2, "alias": 2}
    leaf_kinds = ("none", "bool", "int", "float", "str", "bytes", "uuid4", "datetime", "date")
    p_unsat = 0.06          # deliberately unsatisfiable scalar constraints
    p_value = 0.25          # scalar carries a fixed value
    big = True              # bounds / lengths beyond generator defaults
    patterns = True
    clockless = False       # no unfixed uuid4/datetime/date (C17)
    key_pool = "wide"       # "wide" | "str"
    unique_leaves = False
    nonfinite = False       # inf as float value/bound
    p_empty_alphabet = 0.02
    p_any_undeclared = 0.15
    p_dict_undeclared = 0.08
    wrap = 0.0              # probability to mark a node for custom wrapping (C16)
    spine = False           # set by _shaped: containers only until the last two levels
    wide = False            # set by _shaped: containers take max_fan members
    repr_safe = False       # C06: only what repr can print as an expression
    p_shape = float(__import__("os").environ.get("RV_P_SHAPE", "0.04"))          # root calls without an explicit depth: probability of a deep spine / a wide node

    def __init__(self, **kw):
        for k, v in kw.items():
            if not hasattr(self, k):
                raise AttributeError(k)
            setattr(self, k, v)


def _wchoice(rng, weights):
    items = list(weights.items())
    tot = sum(w for _, w in items)
    r = rng.random() * tot
    for k, w in items:
        r -= w
        if r <= 0:
            return k
    return items[-1][0]


def gen_len(rng, prof, lo_hint=None, maxn=None):
    """Random len form.  maxn bounds the numbers used."""
    top = maxn if maxn is not None else (48 if prof.big else 12)
    pool = [0, 1, 2, 3, 5, 8, 16, 17, 20, 32, 33, 40, 48]
    pool = [x for x in pool if x <= top] or [0]
    kind = rng.choice(("eq", "min", "max", "range"))
    a = rng.choice(pool)
    if kind == "eq":
        return ("eq", a)
    if kind == "min":
        return ("min", a)
    if kind == "max":
        return ("max", a)
    b = rng.choice(pool)
    lo, hi = min(a, b), max(a, b)
    if rng.random() < prof.p_unsat and lo != hi:
        lo, hi = hi, lo
    return ("range", lo, hi)


def gen_int(rng, prof):
    pool = INT_POOL if prof.big else INT_SMALL
    s = mk("int")
    r = rng.random()
    if r < prof.p_value:
        v = rng.choice(pool)
        if prof.unique_leaves:
            v = rng.randint(-10 ** 6, 10 ** 6)
        s["value"] = v
        if rng.random() < 0.3:
            s["min"] = v - rng.choice((0, 1, 5, 2 ** 40))
        if rng.random() < 0.3:
            s["max"] = v + rng.choice((0, 1, 5, 2 ** 40))
        return s
    if r < prof.p_value + 0.3:
        return s
    a, b = rng.choice(pool), rng.choice(pool)
    lo, hi = min(a, b), max(a, b)
    m = rng.random()
    if m < 0.3:
        s["min"] = rng.choice((lo, hi))
    elif m < 0.6:
        s["max"] = rng.choice((lo, hi))
    else:
        if rng.random() < 0.15:
            hi = lo + rng.choice((0, 1, 2))
        if rng.random() < prof.p_unsat and lo != hi:
            lo, hi = hi, lo
        s["min"], s["max"] = lo, hi
    return s


def gen_float(rng, prof):
    pool = FLOAT_POOL if prof.big else FLOAT_SMALL
    s = mk("float")
    r = rng.random()
    if rng.random() < 0.35:
        s["precision"] = rng.choice((1, 1, 2, 2, 3, 4, 6, 10, 15))
    if r < prof.p_value:
        v = rng.choice(pool)
        if prof.nonfinite and rng.random() < 0.15:
            v = rng.choice((float("inf"), float("-inf")))
        if prof.unique_leaves:
            v = round(rng.uniform(-1000, 1000), 3)
        s["value"] = v
        if v == v and abs(v) != float("inf"):
            if rng.random() < 0.3:
                s["min"] = v - rng.choice((0.0, 0.5, 1e6))
            if rng.random() < 0.3:
                s["max"] = v + rng.choice((0.0, 0.5, 1e6))
        return s
    if r < prof.p_value + 0.25:
        return s
    a, b = rng.choice(pool), rng.choice(pool)
    lo, hi = min(a, b), max(a, b)
    if prof.nonfinite and rng.random() < 0.1:
        hi = float("inf")
    m = rng.random()
    if m < 0.25:
        s["min"] = rng.choice((lo, hi))
    elif m < 0.5:
        s["max"] = rng.choice((lo, hi))
    else:
        if rng.random() < 0.2:
            hi = lo + rng.choice((0.0, 0.01, 0.04, 0.1, 0.5))
        if rng.random() < prof.p_unsat and lo != hi:
            lo, hi = hi, lo
        s["min"], s["max"] = lo, hi
    return s


def rand_str(rng, alphabet, n):
    return "".join(rng.choice(alphabet) for _ in range(n))


DEFAULT_CHARS = string.ascii_letters + string.digits + " -_"
WIDE_CHARS = DEFAULT_CHARS + ".,:;!?/\\'\"\n\téüß日本\u0301\u2126"


def gen_str(rng, prof, uniq=None):
    s = mk("str")
    r = rng.random()
    if r < prof.p_value:
        alpha = rng.choice(ALPHABETS + [WIDE_CHARS, DEFAULT_CHARS])
        n = rng.choice((0, 1, 2, 3, 5, 8, 13))
        v = rand_str(rng, alpha, n)
        if prof.unique_leaves and uniq is not None:
            v = "u%d_" % uniq() + v
        s["value"] = v
        m = rng.random()
        if m < 0.2:
            s["len"] = rng.choice((("eq", len(v)), ("min", max(0, len(v) - rng.choice((0, 1, 2)))),
                                   ("max", len(v) + rng.choice((0, 1, 2))),
                                   ("range", max(0, len(v) - 1), len(v) + 1)))
        if rng.random() < 0.2:
            extra = rng.choice(ALPHABETS)
            s["alphabet"] = "".join(dict.fromkeys(v + extra))
        if rng.random() < 0.2 and len(v) > 0:
            i = rng.randrange(len(v))
            j = rng.randint(i, len(v))
            s["substr"] = v[i:j]
        if rng.random() < 0.1 and prof.patterns and "alphabet" not in s and "len" not in s \
                and "substr" not in s and v:
            ch = rng.choice(v)
            s["pattern"] = re.escape(ch)
            s["examples"] = [v]
            s["pattern_shape"] = "lit"
        return s
    if r < prof.p_value + 0.15:
        return s
    if prof.patterns and rng.random() < 0.2:
        for _ in range(20):
            node = regexgen.simple_pattern(rng)
            pat = node.render()
            try:
                rx = re.compile(pat)
            except re.error:
                continue
            ex = []
            for _ in range(4):
                e = node.example(rng)
                if rx.fullmatch(e):
                    ex.append(e)
            if ex:
                s["pattern"] = pat
                s["examples"] = ex
                s["pattern_shape"] = str(node.shape())[:120]
                return s
        return s
    # len / alphabet / substr combinations
    if rng.random() < 0.6:
        s["len"] = gen_len(rng, prof)
    if rng.random() < 0.45:
        s["alphabet"] = rng.choice(ALPHABETS)
        if rng.random() < prof.p_empty_alphabet:
            s["alphabet"] = ""
    if rng.random() < 0.35:
        base = s.get("alphabet") or WIDE_CHARS
        n = rng.choice((0, 1, 2, 3, 6))
        if rng.random() < prof.p_unsat:
            base = "#@"
        s["substr"] = rand_str(rng, base, n) if base else ""
    return s


def gen_scalar(rng, prof, k, uniq=None):
    if k == "none":
        return mk("none")
    if k == "bool":
        return mk("bool", value=rng.choice((True, False)) if rng.random() < prof.p_value + 0.15 else None)
    if k == "int":
        return gen_int(rng, prof)
    if k == "float":
        return gen_float(rng, prof)
    if k == "str":
        return gen_str(rng, prof, uniq)
    fixed = prof.clockless or rng.random() < 0.5
    if k == "bytes":
        return mk("bytes", value=rng.choice(BYTES) if rng.random() < 0.5 else None)
    if k == "uuid4":
        return mk("uuid4", value=rng.choice(UUIDS) if fixed else None)
    if k == "datetime":
        return mk("datetime", value=rng.choice(DATETIMES) if fixed else None)
    if k == "date":
        return mk("date", value=rng.choice(DATES) if fixed else None)
    raise ValueError(k)


def gen_key(rng, prof):
    if prof.key_pool == "str" or rng.random() < 0.7:
        return rng.choice(NAMES)
    pool = [0, 1, 2, -5, 2 ** 70, None, (1, 2), ("a", None), b"k", 1.5, ()]
    if not prof.repr_safe:
        pool += [True, False]
    return rng.choice(pool)


def gen_keys(rng, prof, n):
    keys = {}
    tries = 0
    while len(keys) < n and tries < 50:
        tries += 1
        k = gen_key(rng, prof)
        if k not in keys:
            keys[k] = None
    return list(keys)


DEEP_KINDS = {"list": 12, "dict": 12, "any": 5, "alias": 3, "int": 4, "str": 4, "float": 2, "none": 1, "bool": 1}


def _shaped(rng, prof):
    """Deep spines (depth max_depth+1 .. max_depth+4, fan <= 2) and wide nodes (fan 6..12, depth <= 2): the shapes
    the ordinary profile never reaches.  The decision peeks at the stream and restores it, so every case that is
    not shaped is exactly the case it was before this mode existed."""
    st = rng.getstate()
    x = rng.random()
    if x >= prof.p_shape:
        rng.setstate(st)
        return None
    import copy
    sp = copy.copy(prof)
    sp.p_shape = 0.0
    if x < prof.p_shape / 2:
        sp.max_fan = 2
        sp.spine = True
        sp.kinds = {k: w for k, w in DEEP_KINDS.items() if k in prof.kinds}
        return sp, rng.randint(prof.max_depth + 1, prof.max_depth + 4)
    sp.max_fan = rng.randint(6, 12)
    sp.wide = True
    return sp, rng.randint(1, 2)


def gen_spec(rng, prof, depth=None, uniq=None):
    if depth is None:
        shaped = _shaped(rng, prof) if prof.p_shape else None
        if shaped is not None:
            prof, depth = shaped
        else:
            depth = rng.randint(0, prof.max_depth)
    if uniq is None:
        counter = [0]

        def uniq():
            counter[0] += 1
            return counter[0]
    weights = dict(prof.kinds)
    if prof.spine and depth >= 2:
        weights = {k: w for k, w in weights.items() if k not in prof.leaf_kinds} or weights
    if depth <= 0:
        weights = {k: w for k, w in weights.items() if k in prof.leaf_kinds}
    k = _wchoice(rng, weights)
    if k in prof.leaf_kinds:
        s = gen_scalar(rng, prof, k, uniq)
    elif k == "list":
        s = gen_list(rng, prof, depth, uniq)
    elif k == "dict":
        s = gen_dict(rng, prof, depth, uniq)
    elif k == "any":
        if rng.random() < prof.p_any_undeclared:
            s = mk("any")
        else:
            n = rng.choice((1, 2, 2, 3))
            s = mk("any", types=[gen_spec(rng, prof, depth - 1, uniq) for _ in range(n)])
    elif k == "alias":
        s = mk("alias", name=rng.choice(("Alias", "T", "UserId")), target=gen_spec(rng, prof, depth - 1, uniq))
    else:
        raise ValueError(k)
    if prof.wrap and rng.random() < prof.wrap:
        s["wrap"] = 1 if rng.random() < 0.85 else 2
    return s


def gen_list(rng, prof, depth, uniq):
    r = rng.random()
    s = mk("list")
    if r < 0.12:
        s["form"] = "bare"
        if rng.random() < 0.5:
            s["len"] = gen_len(rng, prof, maxn=20 if prof.big else 8)
        return s
    if r < 0.45:
        s["form"] = "typed"
        s["type"] = gen_spec(rng, prof, depth - 1, uniq)
        if rng.random() < 0.55:
            s["len"] = gen_len(rng, prof, maxn=20 if prof.big else 8)
            if depth >= 2 and s["len"][0] in ("eq", "min") and s["len"][1] > 8:
                s["len"] = (s["len"][0], rng.choice((0, 1, 2, 3))) + tuple(
                    max(x, 3) for x in s["len"][2:])
        return s
    s["form"] = "elems"
    n = prof.max_fan if prof.wide and rng.random() < 0.7 else rng.choice((0, 1, 1, 2, 2, 3, prof.max_fan))
    els = [gen_spec(rng, prof, depth - 1, uniq) for _ in range(n)]
    e = rng.random()
    if e < 0.4:
        pass  # exact
    elif e < 0.55:
        els = els + [ELL] if n >= 1 else [ELL]
    elif e < 0.7:
        els = [ELL] + els
    elif e < 0.92 and n >= 1:
        els = [ELL] + els + [ELL]
    elif n == 0:
        els = [ELL]
    s["elems"] = els
    concrete = [x for x in els if x != ELL]
    c = len(concrete)
    if rng.random() < 0.4:
        if len(concrete) == len(els):
            s["len"] = rng.choice((("eq", c), ("min", rng.randint(0, c)), ("max", c + rng.choice((0, 1, 3))),
                                   ("range", rng.randint(0, c), c + rng.choice((0, 2)))))
        else:
            extra = rng.choice((0, 0, 1, 2, 5))
            s["len"] = rng.choice((("eq", c + extra), ("min", rng.randint(0, c)), ("max", c + extra),
                                   ("range", rng.randint(0, c), c + extra)))
    return s


def gen_dict(rng, prof, depth, uniq):
    s = mk("dict")
    if rng.random() < prof.p_dict_undeclared:
        s["keys"] = None
        return s
    n = prof.max_fan if prof.wide and rng.random() < 0.7 else rng.choice((0, 1, 2, 2, 3, 3, prof.max_fan))
    keys = gen_keys(rng, prof, n)
    entries = []
    for key in keys:
        entries.append((key, gen_spec(rng, prof, depth - 1, uniq), rng.random() < 0.3))
    s["keys"] = entries
    if rng.random() < 0.3:
        s["relaxed"] = True
        s["relaxed_pos"] = rng.randint(0, len(entries))
    return s


def gen_declared_dict(rng, prof, depth=None, uniq=None):
    if depth is None:
        depth = rng.randint(1, prof.max_depth)
    old = prof.p_dict_undeclared
    prof.p_dict_undeclared = 0.0
    try:
        return gen_dict(rng, prof, depth, uniq)
    finally:
        prof.p_dict_undeclared = old
