"""Self-test run by setup: d42 comes from /repo, decoder round-trips, adversary sees draws."""
import random
import sys


def main():
    from rv.common import bootstrap
    d42 = bootstrap()
    from rv import advrandom, decode
    from rv.build import build
    from rv.gen_spec import Profile, gen_spec
    from d42.declaration import DeclarationError
    rng = random.Random(1)
    prof = Profile()
    ok = bad = 0
    for _ in range(300):
        spec = gen_spec(rng, prof)
        try:
            s = build(spec)
        except DeclarationError:
            continue
        if decode.spec_eq(decode.decode(s), decode.normalise(spec)):
            ok += 1
        else:
            bad += 1
    adv = advrandom.Adversary("lo")
    with advrandom.installed(adv):
        g = advrandom.make_generator()
        d42.schema.int.min(1).max(5).__accept__(g)
    print(f"selftest: d42 from {d42.__file__}; decoder round-trips {ok} ok / {bad} bad; adversary draws {adv.n}")
    return 0 if (bad == 0 and ok > 100 and adv.n >= 1) else 1


if __name__ == "__main__":
    sys.exit(main())
