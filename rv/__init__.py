"""Runtime-verification framework for d42 (see /verif/DESIGN.md)."""
