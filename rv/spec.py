"""Schema *specs*: plain data, owned by the harness, recording what was declared.

A spec is a dict with key "k" (kind) plus kind-specific fields.  Real Python values are held
directly (specs are not JSON; `show()` renders them for evidence / replays).

  none
  bool/bytes/uuid4/datetime/date : value?
  int    : value? min? max?
  float  : value? min? max? precision?
  str    : value? len? alphabet? substr? pattern? (pattern carries "examples": strings that match)
           len is None | ("eq", n) | ("min", n) | ("max", n) | ("range", m, n)
  list   : form "bare" | "typed" | "elems";  type: spec;  elems: [spec | ELL];  len (as for str)
  dict   : keys: None | [(key, spec, optional)] ; relaxed: bool ; relaxed_pos: index of the ...: ...
           entry among the declared entries (only matters for printing)
  any    : types: None | [spec]
  alias  : name, target
Every node may carry "wrap": n  (n layers of the forwarding custom type, C16).
"""
import math

from .common import abstract_float, abstract_int, enc

ELL = "..."  # marker inside list elems

SCALARS = ("none", "bool", "int", "float", "str", "bytes", "uuid4", "datetime", "date")
KINDS = SCALARS + ("list", "dict", "any", "alias")


def mk(k, **kw):
    d = {"k": k}
    d.update({a: b for a, b in kw.items() if b is not None})
    return d


def has(spec, name):
    return name in spec and spec[name] is not None


def list_form(spec):
    """Semantic form of a list spec: untyped | typed | exact | head | tail | contains (+ elems)."""
    f = spec.get("form", "bare")
    if f == "bare":
        return "untyped", []
    if f == "typed":
        return "typed", [spec["type"]]
    el = spec["elems"]
    first = len(el) > 0 and el[0] == ELL
    last = len(el) > 0 and el[-1] == ELL
    if len(el) > 2 and first and last:
        return "contains", el[1:-1]
    if len(el) >= 2 and last:
        return "head", el[:-1]
    if len(el) >= 1 and first:
        return "tail", el[1:]
    return "exact", list(el)


def len_bounds(lenf):
    """(lo, hi) inclusive bounds implied by a len form; hi may be None (unbounded)."""
    if lenf is None:
        return 0, None
    if lenf[0] == "eq":
        return lenf[1], lenf[1]
    if lenf[0] == "min":
        return lenf[1], None
    if lenf[0] == "max":
        return 0, lenf[1]
    return lenf[1], lenf[2]


def len_ok(lenf, n):
    if lenf is None:
        return True
    if lenf[0] == "eq":
        return n == lenf[1]
    if lenf[0] == "min":
        return n >= lenf[1]
    if lenf[0] == "max":
        return n <= lenf[1]
    return lenf[1] <= n <= lenf[2]


def walk(spec, path=()):
    """Yield (path, node) for every node of the spec tree."""
    yield path, spec
    k = spec["k"]
    if k == "list":
        if spec.get("form") == "typed":
            yield from walk(spec["type"], path + ("type",))
        elif spec.get("form") == "elems":
            for i, e in enumerate(spec["elems"]):
                if e != ELL:
                    yield from walk(e, path + (("elem", i),))
    elif k == "dict" and spec.get("keys") is not None:
        for i, (key, sub, opt) in enumerate(spec["keys"]):
            yield from walk(sub, path + (("key", i),))
    elif k == "any" and spec.get("types") is not None:
        for i, t in enumerate(spec["types"]):
            yield from walk(t, path + (("alt", i),))
    elif k == "alias":
        yield from walk(spec["target"], path + ("target",))


def depth(spec):
    return max(len(p) for p, _ in walk(spec))


def size(spec):
    return sum(1 for _ in walk(spec))


def constraints(spec):
    """Number of declared constraints in the tree (for the non-triviality rule)."""
    n = 0
    for _, s in walk(spec):
        for f in ("value", "min", "max", "precision", "len", "alphabet", "substr", "pattern"):
            if has(s, f):
                n += 1
        if s["k"] == "list" and s.get("form", "bare") != "bare":
            n += 1
        if s["k"] == "dict" and s.get("keys") is not None:
            n += 1
        if s["k"] == "any" and s.get("types") is not None:
            n += 1
    return n


def nontrivial(spec):
    return constraints(spec) >= 1 or depth(spec) >= 1


def _absval(v):
    if isinstance(v, bool):
        return "bool"
    if isinstance(v, int):
        return "i" + abstract_int(v)
    if isinstance(v, float):
        return "f" + abstract_float(v)
    if isinstance(v, str):
        return f"s{min(len(v), 40)}"
    if isinstance(v, bytes):
        return f"b{min(len(v), 40)}"
    return type(v).__name__


def shape(spec):
    """Abstract shape: literals replaced by their class.  Used for distinct counting."""
    k = spec["k"]
    out = [k]
    if spec.get("wrap"):
        out.append(("wrap", spec["wrap"]))
    for f in ("value", "min", "max"):
        if has(spec, f):
            out.append((f, _absval(spec[f])))
    if has(spec, "precision"):
        out.append(("precision", spec["precision"]))
    if has(spec, "len"):
        lf = spec["len"]
        out.append(("len", lf[0]) + tuple(abstract_int(x) for x in lf[1:]))
    if has(spec, "alphabet"):
        out.append(("alphabet", min(len(spec["alphabet"]), 3)))
    if has(spec, "substr"):
        out.append(("substr", min(len(spec["substr"]), 3)))
    if has(spec, "pattern"):
        out.append(("pattern", spec.get("pattern_shape", "p")))
    if k == "list":
        f = spec.get("form", "bare")
        out.append(f)
        if f == "typed":
            out.append(shape(spec["type"]))
        elif f == "elems":
            out.append([ELL if e == ELL else shape(e) for e in spec["elems"]])
    elif k == "dict":
        if spec.get("keys") is None:
            out.append("undeclared")
        else:
            out.append([(type(key).__name__, bool(opt), shape(sub)) for key, sub, opt in spec["keys"]])
            out.append(("relaxed", bool(spec.get("relaxed"))))
    elif k == "any":
        out.append(None if spec.get("types") is None else [shape(t) for t in spec["types"]])
    elif k == "alias":
        out.append(shape(spec["target"]))
    return out


def show(spec):
    """JSON-safe rendering of a spec."""
    if spec == ELL:
        return "..."
    out = {"k": spec["k"]}
    for f, v in spec.items():
        if f in ("k", "pattern_shape"):
            continue
        if f == "type" or f == "target":
            out[f] = show(v)
        elif f == "elems":
            out[f] = [show(e) for e in v]
        elif f == "keys":
            out[f] = None if v is None else [[enc(key), show(sub), bool(opt)] for key, sub, opt in v]
        elif f == "types":
            out[f] = None if v is None else [show(t) for t in v]
        elif f == "len":
            out[f] = None if v is None else list(v)
        elif f == "examples":
            out[f] = [enc(e) for e in v[:3]]
        else:
            out[f] = enc(v)
    return out


def is_finite_spec(spec):
    for _, s in walk(spec):
        for f in ("value", "min", "max"):
            v = s.get(f)
            if isinstance(v, float) and (math.isnan(v) or math.isinf(v)):
                return False
    return True
