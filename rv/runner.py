"""Sharding over worker subprocesses, merging, verdict, evidence."""
import argparse
import importlib
import json
import os
import subprocess
import sys
import tempfile
import time
from concurrent.futures import ThreadPoolExecutor

from . import known
from .common import REPO, VERIF, h, repo_state

PY = os.environ.get("D42_PY", "/venv/bin/python")


class Ctx:
    """Per-worker collector."""

    def __init__(self, prop, tier, seed, shard, nshards, params):
        self.prop = prop
        self.tier = tier
        self.seed = seed
        self.shard = shard
        self.nshards = nshards
        self.params = params
        self.counters = {}
        self.tables = {}
        self.distinct_set = set()
        self.samples = []
        self.violations = []
        self.harness_errors = []
        self.case = None
        self.extra = {}
        self.max_samples = 3
        self.max_violations = 40

    def count(self, name, n=1):
        self.counters[name] = self.counters.get(name, 0) + n

    def table(self, name, key, n=1):
        t = self.tables.setdefault(name, {})
        key = key if isinstance(key, str) else json.dumps(key, default=str)
        t[key] = t.get(key, 0) + n

    def distinct(self, obj, nontrivial=True):
        self.count("cases_seen")
        if nontrivial:
            self.distinct_set.add(h(obj))

    def sample(self, obj):
        if len(self.samples) < self.max_samples:
            self.samples.append(obj)

    def violation(self, kind, detail, case=None):
        """Record a refuting execution.  `kind` is a stable symptom label; detail is JSON-able.

        Witnesses of listed known findings are kept up to 5 per finding; everything else is kept up to 80 per
        shard, so that a flood of known-finding witnesses can never crowd out an unlisted violation."""
        self.count("violations_raw")
        self.table("violation_kinds", kind)
        v = {"kind": kind, "detail": json.loads(json.dumps(detail, default=str)),
             "case": self.case if case is None else case, "shard": self.shard}
        fid = known.classify(self.prop, v)
        if fid is not None:
            self.table("known_finding_witnesses", fid)
            if sum(1 for x in self.violations if x.get("_fid") == fid) < 5:
                v["_fid"] = fid
                self.violations.append(v)
        else:
            self.table("unlisted_violation_kinds", kind)
            if sum(1 for x in self.violations if "_fid" not in x) < 80:
                self.violations.append(v)

    def dump(self):
        return {"counters": self.counters, "tables": self.tables, "distinct": sorted(self.distinct_set),
                "samples": self.samples, "violations": self.violations,
                "harness_errors": self.harness_errors[:10], "extra": self.extra}


def load(prop):
    return importlib.import_module(f"rv.props.{prop}")


def tier_params(module, tier):
    p = dict(module.TIERS[tier])
    scale = float(os.environ.get("VERIF_SCALE", "1"))
    if "cases" in p and scale != 1:
        p["cases"] = max(1, int(p["cases"] * scale))
    return p


def run_worker(prop, tier, seed, shard, nshards, only_case, outfile, timeout):
    env = dict(os.environ)
    env["PYTHONPATH"] = REPO + os.pathsep + VERIF + (os.pathsep + os.path.join(VERIF, ".deps")
                                                       if os.path.isdir(os.path.join(VERIF, ".deps")) else "")
    env["PYTHONDONTWRITEBYTECODE"] = "1"
    env.setdefault("PYTHONHASHSEED", "0")
    cmd = [PY, "-m", "rv.worker", prop, tier, str(seed), str(shard), str(nshards), outfile]
    if only_case is not None:
        cmd += ["--only-case", str(only_case)]
    t0 = time.time()
    try:
        r = subprocess.run(cmd, cwd=VERIF, env=env, capture_output=True, text=True, timeout=timeout)
    except subprocess.TimeoutExpired:
        return {"status": "timeout", "shard": shard, "wall": time.time() - t0}
    if r.returncode != 0 or not os.path.exists(outfile):
        return {"status": "crash", "shard": shard, "rc": r.returncode, "stderr": r.stderr[-3000:],
                "stdout": r.stdout[-1000:], "wall": time.time() - t0}
    with open(outfile) as f:
        data = json.load(f)
    data["status"] = "ok"
    data["shard"] = shard
    data["wall"] = time.time() - t0
    data["stderr_tail"] = r.stderr[-500:]
    return data


def merge(results):
    m = {"counters": {}, "tables": {}, "distinct": set(), "samples": [], "violations": [],
         "harness_errors": [], "extra": {}, "bad_workers": []}
    for r in results:
        if r["status"] != "ok":
            m["bad_workers"].append({k: r.get(k) for k in ("status", "shard", "rc", "stderr", "wall")})
            continue
        for k, v in r["counters"].items():
            m["counters"][k] = m["counters"].get(k, 0) + v
        for tn, t in r["tables"].items():
            mt = m["tables"].setdefault(tn, {})
            for k, v in t.items():
                mt[k] = mt.get(k, 0) + v
        m["distinct"].update(r["distinct"])
        if len(m["samples"]) < 6:
            m["samples"].extend(r["samples"][:2])
        m["violations"].extend(r["violations"])
        m["harness_errors"].extend(r["harness_errors"])
        for k, v in r.get("extra", {}).items():
            if isinstance(v, list):
                m["extra"].setdefault(k, [])
                for x in v:
                    if x not in m["extra"][k]:
                        m["extra"][k].append(x)
            elif isinstance(v, dict):
                d = m["extra"].setdefault(k, {})
                for kk, vv in v.items():
                    if isinstance(vv, (int, float)) and not isinstance(vv, bool):
                        d[kk] = d.get(kk, 0) + vv
                    elif isinstance(vv, list):
                        cur = d.setdefault(kk, [])
                        for x in vv:
                            if x not in cur:
                                cur.append(x)
                    else:
                        d[kk] = vv
            else:
                m["extra"][k] = v
    return m


def main(argv=None):
    ap = argparse.ArgumentParser(prog="check")
    ap.add_argument("prop")
    ap.add_argument("--tier", default=os.environ.get("VERIF_TIER", "quick"), choices=("quick", "thorough"))
    ap.add_argument("--replay")
    ap.add_argument("--seed", type=int, default=None)
    ap.add_argument("--shards", type=int, default=None)
    ap.add_argument("--no-evidence", action="store_true")
    a = ap.parse_args(argv)
    prop = a.prop
    seed = a.seed if a.seed is not None else int(os.environ.get("VERIF_SEED", "0"))
    module = load(prop)
    t0 = time.time()

    if a.replay:
        with open(a.replay) as f:
            rp = json.load(f)
        tier, seed = rp["tier"], rp["seed"]
        with tempfile.TemporaryDirectory(prefix="rv_") as td:
            r = run_worker(prop, tier, seed, rp["shard"], rp["nshards"], rp["case"],
                           os.path.join(td, "out.json"), 3600)
        if r["status"] != "ok":
            print(f"INCONCLUSIVE property={prop} replay worker {r['status']}: {r.get('stderr', '')[-800:]}")
            return 2
        viol = r["violations"]
        open_f, unknown = known.split(prop, viol)
        for fid, vs in open_f.items():
            print(f"KNOWN-FINDING: property={prop} {known.describe(fid)} [{len(vs)} witness(es)]")
        for v in unknown:
            print(json.dumps(v, indent=1, default=str)[:4000])
        if unknown:
            print(f"VIOLATION property={prop} replay={a.replay}")
            return 1
        print(f"replay: no unlisted violation reproduced for property={prop} case={rp['case']}")
        return 0

    params = tier_params(module, a.tier)
    nshards = a.shards or params.get("shards", 16)
    timeout = params.get("timeout", 1800 if a.tier == "quick" else 6 * 3600)
    with tempfile.TemporaryDirectory(prefix="rv_") as td:
        with ThreadPoolExecutor(max_workers=min(nshards, int(os.environ.get("VERIF_JOBS", "16")))) as ex:
            futs = [ex.submit(run_worker, prop, a.tier, seed, i, nshards, None,
                              os.path.join(td, f"out{i}.json"), timeout) for i in range(nshards)]
            results = [f.result() for f in futs]
    m = merge(results)
    wall = time.time() - t0

    # verdict ---------------------------------------------------------------------------------
    inconclusive = []
    for b in m["bad_workers"]:
        inconclusive.append(f"worker shard={b['shard']} {b['status']}: {(b.get('stderr') or '')[-600:]}")
    if m["harness_errors"]:
        inconclusive.append(f"{len(m['harness_errors'])} harness error(s), first: {m['harness_errors'][0]}")
    wd = m["counters"].get("watchdog_timeouts", 0)
    if wd > max(2, 0.01 * m["counters"].get("evaluations", 0)):
        inconclusive.append(f"{wd} cases hit the per-case watchdog")
    if hasattr(module, "required"):
        inconclusive.extend(module.required(m, a.tier) or [])

    open_f, unknown = known.split(prop, m["violations"])
    rc = 0
    lines = []
    for fid, vs in sorted(open_f.items()):
        nwit = m["tables"].get("known_finding_witnesses", {}).get(fid, len(vs))
        lines.append(f"KNOWN-FINDING: property={prop} {known.describe(fid)} "
                     f"[{nwit} witness(es) this run, e.g. {json.dumps(vs[0]['detail'], default=str)[:300]}]")
    replay_paths = []
    if unknown:
        rc = 1
        os.makedirs(os.path.join(VERIF, "replays", prop), exist_ok=True)
        seen_kinds = {}
        for v in unknown:
            seen_kinds.setdefault(v["kind"], []).append(v)
        for kind, vs in seen_kinds.items():
            for v in vs[:2]:
                name = f"{a.tier}_s{seed}_sh{v['shard']}_c{v['case']}_{h(v['kind'])[:6]}.json"
                path = os.path.join(VERIF, "replays", prop, name)
                with open(path, "w") as f:
                    json.dump({"property": prop, "tier": a.tier, "seed": seed, "shard": v["shard"],
                               "nshards": nshards, "case": v["case"], "kind": v["kind"],
                               "detail": v["detail"]}, f, indent=1, default=str)
                replay_paths.append(path)
                lines.append(f"VIOLATION property={prop} replay={path}")
                lines.append(f"  kind={kind} detail={json.dumps(v['detail'], default=str)[:700]}")
    elif inconclusive:
        rc = 2
        for r in inconclusive:
            lines.append(f"INCONCLUSIVE property={prop} {r}")

    # evidence --------------------------------------------------------------------------------
    head, dirty = repo_state()
    cov = {
        "evaluations": int(m["counters"].get("evaluations", m["counters"].get("cases_seen", 0))),
        "distinct_nontrivial": len(m["distinct"]) + int(m["counters"].get("distinct_by_construction", 0)),
        "rule": module.RULE,
        "samples": m["samples"][:6] or ["<none>"],
        "oracle_evaluations": {k: v for k, v in sorted(m["counters"].items())},
        "tables": m["tables"],
        "known_findings_hit": {fid: m["tables"].get("known_finding_witnesses", {}).get(fid, len(vs))
                               for fid, vs in open_f.items()},
        "unlisted_violation_kinds": sorted({v["kind"] for v in unknown}),
        "inconclusive_reasons": inconclusive,
        "workers": nshards,
        "workers_failed": len(m["bad_workers"]),
        "repo_head": head,
        "repo_dirty": dirty,
        "python": sys.version.split()[0],
        "verdict": "violated" if rc == 1 else ("inconclusive" if rc == 2 else "held_on_observed"),
    }
    if getattr(module, "EXHAUSTIVE", False):
        cov["exhaustive"] = True
    if hasattr(module, "coverage_extra"):
        cov.update(module.coverage_extra(m, a.tier) or {})
    if getattr(module, "REACH_FILES", None) and "reach" not in cov:
        from . import probes
        cov["reach"] = probes.reach_summary(m["extra"].get("reach", {}), module.REACH_FILES)
    for k, v in m["extra"].items():
        if k != "reach":
            cov.setdefault(k, v)
    ev = {
        "property_id": prop, "tier": a.tier, "seed": seed, "level": getattr(module, "LEVEL", "exploration"),
        "coverage": cov, "assumptions": getattr(module, "ASSUMPTIONS", []), "wall_s": round(wall, 2),
        "violations": len(unknown),
    }
    if not a.no_evidence:
        os.makedirs(os.path.join(VERIF, "evidence"), exist_ok=True)
        with open(os.path.join(VERIF, "evidence", f"{prop}.json"), "w") as f:
            json.dump(ev, f, indent=1, default=str, sort_keys=True)
    print(f"[{prop}] tier={a.tier} seed={seed} evaluations={cov['evaluations']} "
          f"distinct={cov['distinct_nontrivial']} wall={wall:.1f}s verdict={cov['verdict']}")
    for ln in lines:
        print(ln)
    return rc


if __name__ == "__main__":
    sys.exit(main())
