"""Child interpreter for C17: builds the schemas of the given cases, seeds, generates twice, prints encodings."""
import json
import sys


def has_negated_class(spec):
    """Does the (shown) spec contain a str pattern with a negated class / [^x]?"""
    if isinstance(spec, dict):
        p = spec.get("pattern")
        if isinstance(p, str):
            try:
                import re._parser as sre
                from re._constants import IN, NEGATE, NOT_LITERAL

                def walk(items):
                    for op, av in items:
                        if op is NOT_LITERAL:
                            return True
                        if op is IN and av and av[0][0] is NEGATE:
                            return True
                        if isinstance(av, (list, tuple)):
                            for x in av:
                                if hasattr(x, "data") and walk(x.data):
                                    return True
                                if isinstance(x, (list, tuple)):
                                    for y in x:
                                        if hasattr(y, "data") and walk(y.data):
                                            return True
                        if hasattr(av, "data") and walk(av.data):
                            return True
                    return False
                if walk(sre.parse(p).data):
                    return True
            except Exception:
                if "[^" in p:
                    return True
        return any(has_negated_class(v) for v in spec.values())
    if isinstance(spec, (list, tuple)):
        return any(has_negated_class(v) for v in spec)
    return False



def gen_case(rng):
    from rv.gen_spec import Profile, gen_spec
    prof = Profile(max_depth=2, clockless=True, p_unsat=0.0, p_empty_alphabet=0.0, p_value=0.15,
                   kinds={"none": 1, "bool": 3, "int": 8, "float": 8, "str": 16, "list": 8, "dict": 6, "any": 5,
                          "bytes": 3, "uuid4": 1, "datetime": 1, "date": 0, "alias": 1})
    kind = rng.choice(("int", "int", "neg", "huge", "str", "bytes", "float", "falsy", "small"))
    k = {"int": rng.randint(0, 10 ** 6), "neg": -rng.randint(1, 10 ** 6), "huge": rng.getrandbits(200),
         "str": "seed-%d" % rng.randint(0, 999), "bytes": b"s%d" % rng.randint(0, 999),
         "float": rng.random() * 1000, "falsy": rng.choice((0, 0.0, "", b"", False, -0.0)),
         "small": rng.choice((1, 2, -1, True, 1.0, "0", b"\x00"))}[kind]
    n = rng.randint(1, 10)
    specs = []
    for _ in range(n):
        if rng.random() < 0.3:
            # a str with a pattern from the C09 grammar (incl. negated classes)
            from rv import regexgen
            import re
            for _t in range(10):
                node = regexgen.gen_pattern(rng, depth=rng.choice((0, 1, 2)), anchors=True, big_repeat=rng.random() < 0.3)
                pat = node.render()
                if node.maxlen(40) > 2000:
                    continue
                try:
                    re.compile(pat)
                except Exception:
                    continue
                specs.append({"k": "str", "pattern": pat})
                break
        else:
            specs.append(gen_spec(rng, prof))
    return k, specs


def interleave(rng, schemas):
    import d42
    from d42.generation import Generator, Random, RegexGenerator
    try:
        rg = RegexGenerator(Random(), alphabet={"letters": "ab", "digits": "01", "word": "xy_"}, max_repeat=3)
        rg.generate("a.\\d\\w[^a]b*")
        g = Generator(Random(), rg)
        d42.schema.str.regex(".\\d\\w").__accept__(g)
        d42.schema.list(d42.schema.int).__accept__(g)
    except Exception:
        pass
    # calls that fail half-way (an element that cannot be generated, a refused substitution or declaration) must not
    # leave anything behind in the shared generator / substitutor either
    S = d42.schema
    for thunk in (lambda: d42.fake(S.list(S.str.regex("\\s")).len(2)),
                  lambda: d42.fake(S.list(S.int.min(5).max(1)).len(1, 3)),
                  lambda: d42.fake(S.dict({"a": S.list(S.list(S.str.regex("(?=a)b")).len(1)).len(1)})),
                  lambda: d42.fake(S.list([S.int, S.str.regex("\\Sx")])),
                  lambda: d42.fake(S.any(S.list(S.str.regex("(a)\\1")).len(1))),
                  lambda: d42.substitute(S.dict({"a": S.dict({"b": S.int, ...: ...})}), {"a": {"zz": 1}}),
                  lambda: d42.substitute(S.list(S.int), [1, "x"]),
                  lambda: S.int.min(3).max(1),
                  lambda: d42.validate_or_fail(S.list(S.int), ["x"])):
        try:
            thunk()
        except Exception:
            pass
    for sch in schemas[:3]:
        try:
            v = d42.fake(sch)
            d42.validate(sch, v)
            repr(sch)
            d42.substitute(sch, v)
        except Exception:
            pass


def neutral(d42, schemas, i):
    """Operations that draw nothing, run between the fake() calls of the second pass only: building further facade
    objects (Random is a stateless facade over the global state; constructing one must not touch the seed),
    printing, validating and substituting."""
    from d42.generation import Generator, Random, RegexGenerator
    try:
        Random()
        Generator(Random(), RegexGenerator(Random()))
        RegexGenerator(Random(), max_repeat=5)
        sch = schemas[i - 1] if i else schemas[-1]
        repr(sch)
        d42.validate(sch, i)
        sch == i
        try:
            d42.substitute(sch, [i])
        except Exception:
            pass
    except Exception:
        pass


def main(argv):
    seed = int(argv[0])
    cases = [int(x) for x in argv[1:]]
    from rv.common import bootstrap, case_rng, enc
    bootstrap()
    import d42
    from d42.declaration import DeclarationError
    from d42.generation import Random
    from rv.build import build
    from rv.spec import show
    out = []
    for case in cases:
        rng = case_rng(seed, "C17", 0, case)
        k, specs = gen_case(rng)
        schemas = []
        shown = []
        negated = []
        for s in specs:
            try:
                schemas.append(build(s))
                shown.append(show(s))
                negated.append(has_negated_class(s))
            except DeclarationError:
                continue
        passes = []
        for p in range(2):
            if p == 0:
                Random().set_seed(k)
            else:
                # unrelated public operations between the passes (the values must be a function of k and the
                # schemas only): other generators with their own settings, validation, printing, substitution
                interleave(rng, schemas)
                # re-seed through a *second* Random instance: the state is global
                Random().set_seed(k)
            vals = []
            for i, sch in enumerate(schemas):
                if p == 1:
                    neutral(d42, schemas, i)
                try:
                    vals.append(enc(d42.fake(sch)))
                except Exception as e:  # noqa
                    vals.append({"$exc": type(e).__name__})
            passes.append(vals)
        out.append({"case": case, "seed_kind": type(k).__name__ + (":falsy" if not k else ""), "specs": shown, "negated": negated, "reprs": [repr(s) for s in schemas],
                    "pass1": passes[0], "pass2": passes[1]})
    json.dump(out, sys.stdout)
    return 0


if __name__ == "__main__":
    sys.exit(main(sys.argv[1:]))
