"""Helpers shared by the property monitors: calling the real code and classifying outcomes."""
import traceback

from . import decode as dec
from .build import build
from .gen_value import Unsat, perturbations, witness, zoo
from .spec import show


class Built:
    """A spec together with its real schema (built through the DSL)."""

    def __init__(self, spec, schema):
        self.spec = spec
        self.schema = schema


def try_build(ctx, spec, **kw):
    """Build through the DSL; DeclarationError -> None (counted)."""
    from d42.declaration import DeclarationError
    try:
        return build(spec, **kw)
    except DeclarationError as e:
        ctx.count("undeclarable")
        ctx.table("undeclarable_reason", str(e)[:60])
        return None


def decode_selfcheck(ctx, spec, schema):
    """decode(build(spec)) must equal normalise(spec); a mismatch makes the run inconclusive."""
    try:
        d = dec.decode(schema)
    except dec.DecodeError as e:
        ctx.count("decode_mismatch")
        ctx.extra.setdefault("decode_mismatch_examples", []).append(str(e)[:200])
        return False
    ctx.count("decode_selfcheck")
    if not dec.spec_eq(d, dec.normalise(spec)):
        ctx.count("decode_mismatch")
        ex = ctx.extra.setdefault("decode_mismatch_examples", [])
        if len(ex) < 3:
            ex.append({"spec": show(spec), "decoded": show(d)})
        return False
    return True


def real_validate(schema, value, **kw):
    """-> (errors list | None, exception | None)."""
    from d42 import validate
    try:
        res = validate(schema, value, **kw)
        return res.get_errors(), None
    except RecursionError as e:
        return None, e
    except Exception as e:  # noqa
        return None, e


def exc_info(e):
    tb = traceback.extract_tb(e.__traceback__)
    where = None
    for fr in reversed(tb):
        if "/d42/" in fr.filename:
            where = f"{fr.filename.split('/d42/')[-1]}:{fr.name}"
            break
    return {"type": type(e).__name__, "msg": str(e)[:200], "where": where}


def candidate_values(ctx, spec, rng, *, n_wit=3, max_pert=120, zoo_n=4, perturb=True):
    """Yield (value, origin) pairs for a spec: witnesses, their one-step perturbations, unrelated values."""
    wits = []
    for mode in ("rand", "min", "max") + ("rand",) * max(0, n_wit - 3):
        try:
            w = witness(spec, rng, mode)
        except Unsat:
            ctx.count("witness_unsat")
            break
        wits.append(w)
        yield w, ("witness", mode)
    if perturb:
        for w in wits[:2]:
            k = 0
            ps = list(perturbations(w, rng, spec))
            if len(ps) > max_pert:
                ps = rng.sample(ps, max_pert)
            for pv, d in ps:
                yield pv, ("perturb",) + (d[0],)
                k += 1
    if zoo_n:
        z = zoo()
        z.pop("big_str", None)
        for name in rng.sample(sorted(z), zoo_n):
            yield z[name], ("zoo", name)


def generate_all(ctx, schema, rng, *, real_runs=2, max_sched=None):
    """Generate from `schema` under adversarial schedules and through the real d42.fake.

    Yields (schedule_name, value, exception).  Draw sites are recorded in ctx.extra['draw_sites'].
    """
    from . import advrandom
    import d42
    from d42.generation import Random
    gen = advrandom.make_generator()
    probe = advrandom.Adversary("seeded", seed=rng.getrandbits(32))
    with advrandom.installed(probe):
        try:
            w = schema.__accept__(gen)
            first = ("seeded_probe", w, None)
        except Exception as e:  # noqa
            first = ("seeded_probe", None, e)
    _note_sites(ctx, probe)
    ctx.count("schedules_run")
    yield first
    scheds = advrandom.schedules(ctx.tier, probe.n, rng)
    if max_sched is not None and len(scheds) > max_sched:
        scheds = scheds[:5] + rng.sample(scheds[5:], max_sched - 5)
    if probe.n == 0:
        scheds = scheds[:1]
    for name, kw in scheds:
        adv = advrandom.Adversary(**kw)
        with advrandom.installed(adv):
            try:
                w = schema.__accept__(gen)
                out = (name, w, None)
            except Exception as e:  # noqa
                out = (name, None, e)
        _note_sites(ctx, adv)
        ctx.count("schedules_run")
        ctx.count("draws", adv.n)
        yield out
    for i in range(real_runs):
        Random().set_seed(rng.getrandbits(32))
        ctx.count("real_fake_runs")
        try:
            yield (f"real{i}", d42.fake(schema), None)
        except Exception as e:  # noqa
            yield (f"real{i}", None, e)


def _note_sites(ctx, adv):
    ds = ctx.extra.setdefault("draw_sites", {})
    for site, modes in adv.sites.items():
        cur = ds.setdefault(site, [])
        for m in modes:
            if m not in cur:
                cur.append(m)
