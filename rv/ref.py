"""REFERENCE SEMANTICS: accepts(spec, value) -> True / False / UNJUDGED.

Written from the statement of C02, not from d42/validation/_validator.py.
"""
import datetime as _dt
import math
import re
import uuid as _uuid

from .spec import ELL, len_ok, list_form


class _Unjudged:
    def __repr__(self):
        return "UNJUDGED"

    def __bool__(self):
        raise TypeError("UNJUDGED has no truth value")


UNJUDGED = _Unjudged()

PYTYPE = {
    "none": type(None), "bool": bool, "int": int, "float": float, "str": str, "bytes": bytes,
    "uuid4": _uuid.UUID, "datetime": _dt.datetime, "date": _dt.date, "list": list, "dict": dict,
}


def and3(items):
    """Three-valued conjunction over an iterable of True/False/UNJUDGED."""
    unj = False
    for x in items:
        if x is UNJUDGED:
            unj = True
        elif not x:
            return False
    return UNJUDGED if unj else True


def or3(items):
    unj = False
    for x in items:
        if x is UNJUDGED:
            unj = True
        elif x:
            return True
    return UNJUDGED if unj else False


def float_value_eq(v, fixed, precision):
    """Does float v 'equal' the fixed value under the documented tolerance?"""
    if v != v or fixed != fixed:
        return UNJUDGED
    if v == fixed:
        return True
    if math.isinf(v) or math.isinf(fixed):
        return False
    if precision is None:
        if math.isclose(v, fixed, rel_tol=1e-6, abs_tol=0.0):
            return UNJUDGED  # inside / near the documented tolerance zone (rel 1e-9)
        return False
    scale = 10 ** precision
    try:
        a, b = v * scale, fixed * scale
    except OverflowError:
        return UNJUDGED
    if math.isinf(a) or math.isinf(b):
        return UNJUDGED
    if abs(a) > 2 ** 52 or abs(b) > 2 ** 52:
        # the grid is finer than the float spacing: rounding is the identity on both sides
        return UNJUDGED
    # rounding is only well-determined away from the .5 boundaries
    for x in (a, b):
        frac = abs(x - math.floor(x) - 0.5)
        if frac < 1e-6:
            return UNJUDGED
    return round(a) == round(b)


def accepts(spec, v):
    k = spec["k"]
    if k == "alias":
        return accepts(spec["target"], v)
    if k == "any":
        if spec.get("types") is None:
            return True
        return or3(accepts(t, v) for t in spec["types"])
    if not isinstance(v, PYTYPE[k]):
        return False
    if k == "none":
        return True
    if k == "uuid4":
        if v.version != 4:
            return False
    if k in ("bool", "bytes", "uuid4", "datetime", "date"):
        if spec.get("value") is not None:
            return bool(v == spec["value"])
        return True
    if k == "int":
        if spec.get("value") is not None and v != spec["value"]:
            return False
        if spec.get("min") is not None and v < spec["min"]:
            return False
        if spec.get("max") is not None and v > spec["max"]:
            return False
        return True
    if k == "float":
        res = []
        if spec.get("value") is not None:
            res.append(float_value_eq(v, spec["value"], spec.get("precision")))
        if spec.get("min") is not None or spec.get("max") is not None:
            if v != v:
                res.append(UNJUDGED)  # NaN is unordered: "lies within" is undefined
            else:
                if spec.get("min") is not None:
                    res.append(v >= spec["min"])
                if spec.get("max") is not None:
                    res.append(v <= spec["max"])
        return and3(res)
    if k == "str":
        if spec.get("value") is not None and v != spec["value"]:
            return False
        if not len_ok(spec.get("len"), len(v)):
            return False
        if spec.get("alphabet") is not None:
            al = spec["alphabet"]
            if any(ch not in al for ch in v):
                return False
        if spec.get("substr") is not None and spec["substr"] not in v:
            return False
        if spec.get("pattern") is not None and re.search(spec["pattern"], v) is None:
            return False
        return True
    if k == "list":
        if not len_ok(spec.get("len"), len(v)):
            return False
        form, els = list_form(spec)
        n = len(els)
        if form == "untyped":
            return True
        if form == "typed":
            return and3(accepts(els[0], x) for x in v)
        if form == "exact":
            if len(v) != n:
                return False
            return and3(accepts(e, x) for e, x in zip(els, v))
        if form == "head":
            if len(v) < n:
                return False
            return and3(accepts(e, x) for e, x in zip(els, v))
        if form == "tail":
            if len(v) < n:
                return False
            return and3(accepts(e, x) for e, x in zip(els, v[len(v) - n:]))
        if form == "contains":
            if len(v) < n:
                return False
            return or3(and3(accepts(e, x) for e, x in zip(els, v[i:i + n]))
                       for i in range(0, len(v) - n + 1))
        raise AssertionError(form)
    if k == "dict":
        if spec.get("keys") is None:
            return True
        res = []
        declared = []
        for key, sub, opt in spec["keys"]:
            declared.append(key)
            if key in v:
                res.append(accepts(sub, v[key]))
            elif not opt:
                return False
        if not spec.get("relaxed"):
            for key in v:
                if not any(_same_key(key, d) for d in declared):
                    return False
        return and3(res)
    raise AssertionError(k)


def _same_key(a, b):
    """Dict-key identity as Python dicts see it (hash + ==)."""
    try:
        return a in {b: 0}
    except TypeError:
        return False


def carried_value(spec):
    """If the spec pins a complete value (C10), return (True, value)."""
    k = spec["k"]
    if k in ("bool", "int", "float", "str", "bytes", "uuid4", "datetime", "date"):
        if spec.get("value") is not None:
            return True, spec["value"]
        return False, None
    if k == "none":
        return True, None
    if k == "list" and spec.get("form") == "elems" and ELL not in spec["elems"]:
        out = []
        for e in spec["elems"]:
            ok, v = carried_value(e)
            if not ok:
                return False, None
            out.append(v)
        return True, out
    if k == "dict" and spec.get("keys") is not None and not spec.get("relaxed"):
        out = {}
        for key, sub, opt in spec["keys"]:
            if opt:
                return False, None
            ok, v = carried_value(sub)
            if not ok:
                return False, None
            out[key] = v
        return True, out
    if k == "alias":
        return carried_value(spec["target"])
    return False, None
