"""(schema spec, value) streams for the substitution properties C04 / C05 / C12."""
import decimal
import math
import uuid as _uuid

from .gen_spec import Profile, gen_spec
from .gen_value import OddValue, Unsat, perturbations, witness, zoo
from .spec import ELL, list_form

PROF = Profile(max_depth=3, p_unsat=0.02, p_value=0.2, p_empty_alphabet=0.0,
               kinds={"none": 2, "bool": 3, "int": 8, "float": 6, "str": 9, "list": 12, "dict": 12, "any": 6,
                      "bytes": 2, "uuid4": 2, "datetime": 2, "date": 2, "alias": 3})


def _resolve(node):
    while node is not None and node != ELL and node["k"] == "alias":
        node = node["target"]
    return node


def partialise(spec, v, rng, p=0.4):
    """Remove random subsets of keys wherever the schema position is a *declared* dict."""
    node = _resolve(spec)
    if node is None or node == ELL:
        return v
    k = node["k"]
    if k == "dict" and isinstance(v, dict) and node.get("keys") is not None:
        out = {}
        subs = {}
        for key, sub, opt in node["keys"]:
            try:
                subs[key] = sub
            except TypeError:
                pass
        for key, val in v.items():
            if rng.random() < p:
                continue
            sub = None
            for dk, ds, _ in node["keys"]:
                try:
                    if dk == key and hash(dk) == hash(key):
                        sub = ds
                        break
                except TypeError:
                    pass
            out[key] = partialise(sub, val, rng, p) if sub is not None else val
        return out
    if k == "list" and isinstance(v, list):
        form, els = list_form(node)
        if form == "typed":
            return [partialise(els[0], x, rng, p) for x in v]
        if form in ("exact", "head"):
            return [partialise(els[i], x, rng, p) if i < len(els) else x for i, x in enumerate(v)]
        if form == "tail":
            off = len(v) - len(els)
            return [partialise(els[i - off], x, rng, p) if 0 <= i - off < len(els) else x for i, x in enumerate(v)]
        return v
    if k == "any" and node.get("types"):
        return v
    return v


UNCONVERTIBLE = [OddValue(), (1, 2), {1, 2}, frozenset({1}), decimal.Decimal("1.5"), complex(1, 1), bytearray(b"x"),
                 _uuid.UUID("5a1f2e0c-9d3b-1c7a-8f21-0123456789ab"), float("nan"), range(2), object]


def free_positions(spec, v, path=()):
    """Positions of v served by from_native: untyped list/dict members, undeclared any, elements outside windows,
    extra keys under relaxed dicts.  Yields setter(x) -> new root."""
    node = _resolve(spec)
    if node is None or node == ELL:
        return
    k = node["k"]
    if k == "any":
        if node.get("types") is None:
            yield (lambda x: x), "any_undeclared"
        else:
            for t in node["types"]:
                for f, d in free_positions(t, v, path):
                    yield f, d
        return
    if k == "list" and isinstance(v, list):
        form, els = list_form(node)
        if form == "untyped":
            for i in range(len(v)):
                yield (lambda x, i=i: v[:i] + [x] + v[i + 1:]), "untyped_list_member"
            yield (lambda x: v + [x]), "untyped_list_append"
        elif form == "typed":
            for i in range(min(len(v), 3)):
                for f, d in free_positions(els[0], v[i], path + (i,)):
                    yield (lambda x, i=i, f=f: v[:i] + [f(x)] + v[i + 1:]), d
        elif form == "exact":
            for i in range(min(len(v), len(els))):
                for f, d in free_positions(els[i], v[i], path + (i,)):
                    yield (lambda x, i=i, f=f: v[:i] + [f(x)] + v[i + 1:]), d
        elif form == "head":
            for i in range(len(els), len(v)):
                yield (lambda x, i=i: v[:i] + [x] + v[i + 1:]), "outside_head_window"
            yield (lambda x: v + [x]), "outside_head_window"
            for i in range(min(len(v), len(els))):
                for f, d in free_positions(els[i], v[i], path + (i,)):
                    yield (lambda x, i=i, f=f: v[:i] + [f(x)] + v[i + 1:]), d
        elif form == "tail":
            yield (lambda x: [x] + v), "outside_tail_window"
            off = len(v) - len(els)
            for i in range(max(off, 0), len(v)):
                for f, d in free_positions(els[i - off], v[i], path + (i,)):
                    yield (lambda x, i=i, f=f: v[:i] + [f(x)] + v[i + 1:]), "in_tail:" + d
        elif form == "contains":
            yield (lambda x: [x] + v), "outside_contains_window"
            yield (lambda x: v + [x]), "outside_contains_window"
            # inside the window (position unknown): try every index
            for i in range(min(len(v), 4)):
                for e in els:
                    for f, d in free_positions(e, v[i], path + (i,)):
                        yield (lambda x, i=i, f=f: v[:i] + [f(x)] + v[i + 1:]), "in_contains:" + d
    if k == "dict" and isinstance(v, dict):
        if node.get("keys") is None:
            for key in list(v)[:3]:
                yield (lambda x, key=key: {**v, key: x}), "undeclared_dict_member"
            yield (lambda x: {**v, "zz_new": x}), "undeclared_dict_member"
            return
        if node.get("relaxed"):
            yield (lambda x: {**v, "zz_extra": x}), "relaxed_extra_key"
        for key, sub, opt in node["keys"]:
            try:
                if key in v:
                    for f, d in free_positions(sub, v[key], path + (key,)):
                        yield (lambda x, key=key, f=f: {**v, key: f(x)}), d
            except TypeError:
                pass


def relaxed_extra_positions(spec, v):
    """Setters that add an *extra key* under relaxed dicts at any depth (the value stays convertible)."""
    for f, d in free_positions(spec, v):
        if d.endswith("relaxed_extra_key"):
            yield f, d


def placeholders(v, rng):
    """Variants of v with `...` placeholders (leading/trailing in lists, as dict values, the ...: ... entry)."""
    out = []
    if isinstance(v, list):
        out += [[...] + v, v + [...], [...] + v + [...], [...]]
        if v:
            # more concrete elements than a length constraint may allow, next to a placeholder
            out += [v + v + [...], [...] + v + v, v + [v[0]] + [...]]
        if v:
            out += [[...] + v[1:], v[:-1] + [...], [...] * len(v)]
            if len(v) > 2:
                out.append(v[:1] + [...] + v[2:])
    if isinstance(v, dict):
        for key in list(v)[:2]:
            out.append({**v, key: ...})
        out.append({**v, ...: ...})
        out.append({...: ...})
    if isinstance(v, list):
        for i, x in enumerate(v[:3]):
            for w in placeholders(x, rng):
                out.append(v[:i] + [w] + v[i + 1:])
    if isinstance(v, dict):
        for key in list(v)[:3]:
            for w in placeholders(v[key], rng):
                out.append({**v, key: w})
    out.append(...)
    # placeholders in places where only from_native could serve them (nested under free positions)
    out += [{"k": {...: 5}}, {"k": {"q": ...}}, [{...: ...}], [[1, ..., 2]], {"k": [..., ...]}, {...: 5}, {"k": {...: ...}}]
    return out


def gen_pair(rng, hostile=False, prof=PROF):
    """-> (spec, value, vkind).  vkind in complete | partial | perturbed | unconvertible | relaxed_extra |
    placeholder | zoo | unrelated | contains_hostile"""
    if hostile and rng.random() < 0.08:
        return gen_contains_case(rng)
    if hostile and rng.random() < 0.05:
        # placeholders aimed at the positions only from_native could serve (where a schema cannot hold a ...)
        from .spec import mk
        from .gen_value import arbitrary
        spec = rng.choice((mk("dict") | {"keys": None}, mk("dict") | {"keys": [], "relaxed": True}, mk("list", form="bare"),
                           mk("list", form="typed", type=mk("any")), mk("any"),
                           mk("list", form="bare", len=("min", 2)), mk("alias", name="A", target=mk("dict") | {"keys": None})))
        base = rng.choice(([1, "a", [2]], {"w": 1, "q": [1, 2]}, [[1, 2, 3]], {"k": {"n": 1}}, [1, 2, 3, 4]))
        return spec, rng.choice(placeholders(base, rng)), "placeholder"
    for _ in range(20):
        spec = gen_spec(rng, prof)
        try:
            w = witness(spec, rng, rng.choice(("rand", "rand", "min", "max")))
        except Unsat:
            if not hostile:
                continue
            z = zoo()
            z.pop("big_str", None)
            name = rng.choice(sorted(z))
            return spec, z[name], "zoo"
        r = rng.random()
        if not hostile:
            if r < 0.5:
                return spec, w, "complete"
            return spec, partialise(spec, w, rng, rng.choice((0.2, 0.5, 0.9))), "partial"
        if r < 0.15:
            return spec, w, "complete"
        if r < 0.25:
            return spec, partialise(spec, w, rng), "partial"
        if r < 0.5:
            ps = list(perturbations(w, rng, spec))
            if ps:
                return spec, rng.choice(ps)[0], "perturbed"
            return spec, w, "complete"
        if r < 0.7:
            pos = list(free_positions(spec, w))
            if pos:
                f, d = rng.choice(pos)
                bad = rng.choice(UNCONVERTIBLE)
                if rng.random() < 0.4:
                    # nested inside an otherwise convertible container (from_native recurses)
                    bad = rng.choice(([bad], {"k": bad}, [[1, bad]], {"k": [bad]}, [0, {"q": bad}]))
                if d.endswith("relaxed_extra_key") and rng.random() < 0.6:
                    return spec, f(rng.choice((0, "x", [1], {"q": 1}))), "relaxed_extra"
                return spec, f(bad), "unconvertible"
            return spec, rng.choice(UNCONVERTIBLE), "unconvertible"
        if r < 0.85:
            ph = placeholders(w, rng)
            return spec, rng.choice(ph), "placeholder"
        if r < 0.95:
            z = zoo()
            z.pop("big_str", None)
            name = rng.choice(sorted(z))
            return spec, z[name], "zoo"
        return spec, rng.choice((None, 0, "", [], {}, [[]], {"a": {}})), "unrelated"
    return spec, None, "unrelated"


def is_plain(v, depth=0):
    """No ... placeholders anywhere (and only standard containers)."""
    if v is ...:
        return False
    if depth > 20:
        return True
    if isinstance(v, list):
        return all(is_plain(x, depth + 1) for x in v)
    if isinstance(v, dict):
        return all(k is not ... and is_plain(x, depth + 1) for k, x in v.items())
    return True


def float_tolerance(spec):
    """Absolute tolerance the documented float comparison may allow somewhere in this spec
    (1.01 grid steps of the coarsest declared precision; 0 when no precision is declared)."""
    from .spec import walk
    ps = [n["precision"] for _, n in walk(spec) if n["k"] == "float" and n.get("precision") is not None]
    return 1.01 * 10 ** -min(ps) if ps else 0.0


def carries(v, w, tol=0.0):
    """Does w carry the substituted data v?  scalars equal, lists element-wise, dicts on every key given."""
    if isinstance(v, dict):
        if not isinstance(w, dict):
            return False
        for k, x in v.items():
            if k not in w or not carries(x, w[k], tol):
                return False
        return True
    if isinstance(v, list):
        return isinstance(w, list) and len(v) == len(w) and all(carries(a, b, tol) for a, b in zip(v, w))
    if isinstance(v, float):
        if isinstance(w, float):
            if v == w or (v != v and w != w):
                return True
            return math.isfinite(v) and math.isfinite(w) and (math.isclose(v, w, rel_tol=1e-6) or abs(v - w) <= tol)
        return False
    if isinstance(v, bool) or isinstance(w, bool):
        return isinstance(w, int) and isinstance(v, int) and v == w
    try:
        # an equal instance of a subclass carries the value too (isinstance typing, as everywhere in d42)
        return isinstance(w, type(v)) and bool(v == w)
    except Exception:
        return False


def contains_nan(v, depth=0):
    if isinstance(v, float):
        return v != v
    if depth > 20:
        return False
    if isinstance(v, (list, tuple)):
        return any(contains_nan(x, depth + 1) for x in v)
    if isinstance(v, dict):
        return any(contains_nan(k, depth + 1) or contains_nan(x, depth + 1) for k, x in v.items())
    return False


def gen_contains_case(rng):
    """A contains-list whose windows are substitution-hostile: body of 1-3 elements (dicts, relaxed dicts, unions,
    untyped positions), value = a conforming value in which the matching window (or a neighbour that also looks like
    a window start) fails *during* substitution: extra key under a relaxed dict, unconvertible member at a free
    position, partial dicts in front of the real window."""
    from .spec import mk
    def d(relaxed, req=True):
        keys = [("a", mk("int"), not req)]
        if rng.random() < 0.4:
            keys.append(("b", mk("str"), True))
        s = mk("dict")
        s["keys"] = keys
        if relaxed:
            s["relaxed"] = True
        return s
    pool = [lambda: d(True), lambda: d(False), lambda: mk("dict", keys=None) | {"keys": None}, lambda: mk("any"),
            lambda: mk("any", types=[d(True), mk("none")]), lambda: mk("list", form="bare"), lambda: mk("int"),
            lambda: mk("alias", name="W", target=d(True)), lambda: mk("list", form="typed", type=d(True))]
    n = rng.choice((1, 2, 2, 3))
    body = [rng.choice(pool)() for _ in range(n)]
    spec = mk("list", form="elems", elems=[ELL] + body + [ELL])
    try:
        core = [witness(b, rng) for b in body]
    except Unsat:
        return spec, [], "contains_hostile"
    # poison the window
    bad = rng.choice((OddValue(), (1, 2), {1}))
    for i, (b, val) in enumerate(zip(body, core)):
        r = rng.random()
        if isinstance(val, dict) and r < 0.6:
            val = dict(val)
            val["zz_extra"] = rng.choice((2, bad))
            core[i] = val
        elif isinstance(val, list) and r < 0.6:
            core[i] = val + [rng.choice((1, bad))]
        elif b["k"] == "any" and r < 0.5:
            core[i] = rng.choice((bad, [bad], {"k": bad}))
    lead = [rng.choice(({}, {"a": 1}, [], 0, None, {"a": 1, "zz": 2})) for _ in range(rng.choice((0, 1, 1, 2)))]
    trail = [rng.choice(({}, {"a": 1}, [], 0, None)) for _ in range(rng.choice((0, 0, 1, 2)))]
    return spec, lead + core + trail, "contains_hostile"
