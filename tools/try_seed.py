#!/usr/bin/env python3
"""Apply a seeded patch to a scratch worktree of /repo and run checks against it (never touches /repo itself).

usage: tools/try_seed.py <patch.diff> [--props C01,C07] [--tier quick] [--tests] [--demo demo.py] [--seed N]
"""
import argparse
import os
import subprocess
import sys

VERIF = os.path.dirname(os.path.dirname(os.path.abspath(__file__)))
WT = os.environ.get("SEED_WT", "/tmp/wt_eval")
ALL = [f"C{i:02d}" for i in range(1, 20)]


def sh(cmd, **kw):
    return subprocess.run(cmd, shell=isinstance(cmd, str), capture_output=True, text=True, **kw)


def main():
    ap = argparse.ArgumentParser()
    ap.add_argument("patch")
    ap.add_argument("--props", default=",".join(ALL))
    ap.add_argument("--tier", default="quick")
    ap.add_argument("--tests", action="store_true")
    ap.add_argument("--demo")
    ap.add_argument("--seed", default="0")
    a = ap.parse_args()
    if not os.path.isdir(WT):
        r = sh(["git", "-C", "/repo", "worktree", "add", "-q", "--detach", WT, "HEAD"])
        if r.returncode:
            print(r.stderr)
            return 2
    sh(["git", "-C", WT, "checkout", "-q", "--detach", sh(["git", "-C", "/repo", "rev-parse", "HEAD"]).stdout.strip()])
    sh(["git", "-C", WT, "checkout", "--", "."])
    env = dict(os.environ, PYTHONPATH=WT, PYTHONDONTWRITEBYTECODE="1")
    if a.demo:
        r0 = sh(["/venv/bin/python", os.path.abspath(a.demo)], env=env, cwd=WT)
        print(f"demo WITHOUT patch: exit={r0.returncode}")
    r = sh(["git", "-C", WT, "apply", os.path.abspath(a.patch)])
    if r.returncode:
        print("patch does not apply:", r.stderr[:500])
        return 2
    try:
        if a.demo:
            r1 = sh(["/venv/bin/python", os.path.abspath(a.demo)], env=env, cwd=WT)
            print(f"demo WITH patch: exit={r1.returncode} :: {(r1.stdout + r1.stderr).strip()[-300:]}")
        if a.tests:
            r = sh("/venv/bin/python -m pytest -q -p no:cacheprovider -n 8 2>&1 | tail -2", env=env, cwd=WT)
            print("tests:", r.stdout.strip().replace("\n", " | "))
        caught = []
        for p in a.props.split(","):
            e2 = dict(os.environ, D42_REPO=WT, VERIF_SEED=a.seed)
            r = sh([os.path.join(VERIF, "check"), p, "--tier", a.tier, "--no-evidence"], env=e2, cwd=VERIF)
            lines = r.stdout.strip().splitlines()
            head = lines[0][:140] if lines else r.stderr[-200:]
            viol = [ln for ln in lines if ln.startswith("  kind=")]
            print(f"{p} rc={r.returncode} {head}")
            for ln in viol[:2]:
                print("     ", ln[:260])
            if r.returncode == 1:
                caught.append(p)
            if r.returncode == 2:
                for ln in lines:
                    if ln.startswith("INCONCLUSIVE"):
                        print("     ", ln[:300])
        print("CAUGHT_BY:", ",".join(caught) or "-")
    finally:
        sh(["git", "-C", WT, "checkout", "--", "."])
    return 0


if __name__ == "__main__":
    sys.exit(main())
