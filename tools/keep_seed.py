#!/usr/bin/env python3
"""tools/keep_seed.py <seed_dir> <name> : re-confirm a seeded change (demo fails with / passes without, test-suite passes),
run every quick check against it and store it as /verif/seeded/<name>/ with meta.json."""
import json
import os
import re
import shutil
import subprocess
import sys

VERIF = os.path.dirname(os.path.dirname(os.path.abspath(__file__)))


def main():
    src, name = sys.argv[1], sys.argv[2]
    props = sys.argv[3] if len(sys.argv) > 3 else None
    cmd = [os.path.join(VERIF, "tools", "try_seed.py"), os.path.join(src, "patch.diff"), "--demo", os.path.join(src, "demo.py"), "--tests"]
    if props:
        cmd += ["--props", props]
    r = subprocess.run(cmd, capture_output=True, text=True)
    out = r.stdout
    m0 = re.search(r"demo WITHOUT patch: exit=(\d+)", out)
    m1 = re.search(r"demo WITH patch: exit=(\d+)", out)
    tests = re.search(r"(\d+ passed[^|\n]*)", out)
    caught = re.search(r"CAUGHT_BY: (.*)", out)
    failed = "failed" in (tests.group(1) if tests else "failed")
    ok = m0 and m1 and m0.group(1) == "0" and m1.group(1) != "0" and tests and not failed
    print(f"{name}: demo without={m0.group(1) if m0 else '?'} with={m1.group(1) if m1 else '?'} tests={tests.group(1) if tests else '?'} "
          f"caught_by={caught.group(1) if caught else '?'} -> {'KEEP' if ok else 'REJECT'}")
    if not ok:
        return 1
    dst = os.path.join(VERIF, "seeded", name)
    os.makedirs(dst, exist_ok=True)
    shutil.copy(os.path.join(src, "patch.diff"), dst)
    shutil.copy(os.path.join(src, "demo.py"), dst)
    try:
        meta = json.load(open(os.path.join(src, "meta.json")))
    except Exception:
        meta = {}
    kinds = {}
    for ln in out.splitlines():
        mm = re.match(r"^(C\d\d) rc=(\d)", ln)
        if mm:
            cur = mm.group(1)
            kinds[cur] = {"rc": int(mm.group(2)), "kinds": []}
        mk = re.match(r"^\s+kind=(\S+)", ln)
        if mk and kinds:
            kinds[cur]["kinds"].append(mk.group(1))
    new = {
        "breaks_property": meta.get("property"),
        "summary": meta.get("summary"),
        "needs_to_manifest": meta.get("needs"),
        "files": meta.get("files"),
        "origin": "independent sub-agent given only the property text and a scratch worktree",
        "author_ran": meta.get("ran"),
        "confirmed_by_me": {"demo_exit_without_patch": int(m0.group(1)), "demo_exit_with_patch": int(m1.group(1)),
                            "test_suite_with_patch": tests.group(1),
                            "how": "tools/try_seed.py: patch applied to a scratch worktree of /repo HEAD (PYTHONPATH=<worktree>), demo and the "
                                   "full pytest suite run there, then every quick check with D42_REPO=<worktree>"},
        "caught_by_quick_checks": [p for p, v in kinds.items() if v["rc"] == 1],
        "violation_kinds": {p: sorted(set(v["kinds"])) for p, v in kinds.items() if v["rc"] == 1},
        "repo_head": subprocess.run(["git", "-C", "/repo", "rev-parse", "--short", "HEAD"], capture_output=True, text=True).stdout.strip(),
    }
    json.dump(new, open(os.path.join(dst, "meta.json"), "w"), indent=1)
    return 0


if __name__ == "__main__":
    sys.exit(main())
