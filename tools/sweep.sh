#!/bin/sh
# tools/sweep.sh <tier> <seeds...>  : run every check for the tier and the given VERIF_SEED values; print one line per run
TIER="$1"; shift
cd "$(dirname "$0")/.." || exit 2
./setup.sh >/dev/null 2>&1
for SEED in "$@"; do
  for P in C01 C02 C03 C04 C05 C06 C07 C08 C09 C10 C11 C12 C13 C14 C15 C16 C17 C18 C19; do
    START=$(date +%s)
    VERIF_SEED=$SEED ./check $P --tier "$TIER" --no-evidence > /tmp/sweep_$$.log 2>&1
    RC=$?
    END=$(date +%s)
    echo "SWEEP tier=$TIER seed=$SEED $P rc=$RC secs=$((END-START)) $(head -1 /tmp/sweep_$$.log | cut -c1-160)"
    grep -E "^(VIOLATION|INCONCLUSIVE|  kind=)" /tmp/sweep_$$.log | cut -c1-600 | head -8
  done
done
rm -f /tmp/sweep_$$.log
