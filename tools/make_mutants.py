#!/usr/bin/env python3
"""Generate /verif/mutants/m_*.diff from the table below (each a small realistic property-breaking edit),
keeping only those that apply and still pass the repository's own test-suite.

usage: tools/make_mutants.py [--only name-substring]
"""
import json
import os
import subprocess
import sys

VERIF = os.path.dirname(os.path.dirname(os.path.abspath(__file__)))
WT = "/tmp/wt_mut"

V = "d42/validation/_validator.py"
G = "d42/generation/_generator.py"
R = "d42/generation/_random.py"
RX = "d42/generation/_regex_generator.py"
S = "d42/substitution/_substitutor.py"
SV = "d42/substitution/_validator.py"
RP = "d42/representation/_representor.py"
PR = "d42/declaration/_props.py"
DS = "d42/declaration/types/_dict_schema.py"
LS = "d42/declaration/types/_list_schema.py"
SS = "d42/declaration/types/_str_schema.py"
IS = "d42/declaration/types/_int_schema.py"
FS = "d42/declaration/types/_float_schema.py"
AS = "d42/declaration/types/_any_schema.py"
FN = "d42/utils/_from_native.py"
MR = "d42/utils/_make_required.py"
RO = "d42/utils/_rollout.py"
CT = "d42/custom_type/_custom_type.py"
MG = "d42/migration/migrate_v1_to_v2.py"
FM = "d42/validation/_formatter.py"
VI = "d42/validation/__init__.py"

# (name, property, file, old, new[, count])
M = [
    # ---- C01
    # ---- C02
    ("c02_contains_last_window_skipped", "C02", V, "            for index, val in enumerate(value):\n                errors = self._validate_elements(path, value, elements[1:-1], index, **kwargs)",
     "            for index, val in enumerate(value[:-1] if len(value) > len(elements) else value):\n                errors = self._validate_elements(path, value, elements[1:-1], index, **kwargs)"),
    ("c02_tail_with_len_skips_elements", "C02", V, "        if (len(elements) >= 1) and is_ellipsis(elements[0]):\n            elements = elements[1:]\n            start = max(0, len(value) - len(elements))",
     "        if (len(elements) >= 1) and is_ellipsis(elements[0]):\n            elements = elements[1:]\n            if schema.props.max_len is not Nil:\n                elements = elements[-1:]\n            start = max(0, len(value) - len(elements))"),
    ("c02_date_rejects_datetime_subclass", "C02", V, "        if error := self._validate_type(path, value, date):\n            return result.add_error(error)",
     "        if (error := self._validate_type(path, value, date)) or isinstance(value, datetime):\n            return result.add_error(error or TypeValidationError(path, value, date))"),
    ("c02_relaxed_dict_extra_key_none", "C02", V, "        if (... not in schema.props.keys):\n            for key, val in value.items():\n                if key not in schema.props.keys:",
     "        if (... not in schema.props.keys):\n            for key, val in value.items():\n                if key not in schema.props.keys and val is not None:"),
    # ---- C03
    ("c03_typed_list_path_shared", "C03", V, "            for index, elem in enumerate(value):\n                nested_path = deepcopy(path)[index]\n                res = type_schema.__accept__(self, value=elem, path=nested_path, **kwargs)\n                result.add_errors(res.get_errors())\n            return result\n\n        elements = cast",
     "            for index, elem in enumerate(value):\n                nested_path = (deepcopy(path) if len(path) == 0 else path)[index]\n                res = type_schema.__accept__(self, value=elem, path=nested_path, **kwargs)\n                result.add_errors(res.get_errors())\n            return result\n\n        elements = cast"),
    ("c03_formatter_path_depth2", "C03", FM, "        return \" at \" + self._format_path(path) if len(path) > 0 else \"\"",
     "        return \" at \" + self._format_path(path) if 0 < len(path) < 4 else \"\""),
    ("c03_subst_validator_dict_path_shared", "C03", SV, "                nested_path = deepcopy(path)[key]\n                res = val.__accept__(self, value=value[key], path=nested_path, **kwargs)",
     "                nested_path = path[key]\n                res = val.__accept__(self, value=value[key], path=nested_path, **kwargs)"),
    # ---- C04
    ("c04_unmentioned_optional_becomes_required", "C04", S, "                else:\n                    keys[key] = (val, is_optional)",
     "                else:\n                    keys[key] = (val, is_optional and len(value) > 0)"),
    ("c04_head_rest_not_pinned", "C04", S, "        for i in range(start + len(substituted), len(value)):\n            substituted.insert(i, self._from_native(value[i]))",
     "        for i in range(start + len(substituted), len(value)):\n            substituted.insert(i, self._from_native(value[i]) if i < 4 else from_native(None).__class__())"),
    # ---- C05
    ("c05_relaxed_marker_added", "C05", S, "                else:\n                    keys[key] = (val, is_optional)\n            for key, val in value.items():",
     "                else:\n                    keys[key] = (val, is_optional)\n            if len(value) == 0:\n                keys[...] = (..., False)\n            for key, val in value.items():"),
    # ---- C06
    ("c06_nested_list_len_swapped", "C06", RP, "        elif (schema.props.min_len is not Nil) and (schema.props.max_len is not Nil):\n            r += f\".len({schema.props.min_len!r}, {schema.props.max_len!r})\"\n        elif schema.props.min_len is not Nil:\n            r += f\".len({schema.props.min_len!r}, ...)\"\n        elif schema.props.max_len is not Nil:\n            r += f\".len(..., {schema.props.max_len!r})\"\n\n        return r\n\n    def visit_dict",
     "        elif (schema.props.min_len is not Nil) and (schema.props.max_len is not Nil):\n            if indent > 4:\n                r += f\".len({schema.props.max_len!r}, {schema.props.min_len!r})\"\n            else:\n                r += f\".len({schema.props.min_len!r}, {schema.props.max_len!r})\"\n        elif schema.props.min_len is not Nil:\n            r += f\".len({schema.props.min_len!r}, ...)\"\n        elif schema.props.max_len is not Nil:\n            r += f\".len(..., {schema.props.max_len!r})\"\n\n        return r\n\n    def visit_dict"),
    ("c06_optional_lost_for_non_str_keys", "C06", RP, "                key_repr = f\"optional({key!r})\" if is_optional else repr(key)",
     "                key_repr = f\"optional({key!r})\" if (is_optional and isinstance(key, str)) else repr(key)"),
    ("c06_relaxed_only_when_last", "C06", RP, "            if is_ellipsis(key):\n                key_repr = val_repr = \"...\"",
     "            if is_ellipsis(key):\n                if len(pairs) == 0 and len(schema.props.keys) > 2:\n                    continue\n                key_repr = val_repr = \"...\""),
    # ---- C07
    ("c07_props_update_shares_registry", "C07", PR, "    def update(self: PropsType, **keys: Any) -> PropsType:\n        registry = {**self._registry, **keys}",
     "    def update(self: PropsType, **keys: Any) -> PropsType:\n        if len(keys) == 1 and \"precision\" in keys:\n            self._registry.update(keys)  # type: ignore\n            return self\n        registry = {**self._registry, **keys}"),
    ("c07_validator_caches_last_dict", "C07", V, "        if schema.props.keys is Nil:\n            return result\n\n        for key, (val, is_optional) in schema.props.keys.items():\n            if is_ellipsis(key):\n                continue\n            if key in value:\n                nested_path = deepcopy(path)[key]",
     "        if schema.props.keys is Nil:\n            return result\n\n        if getattr(self, \"_last_dict\", None) is value and len(path) == 0:\n            return self._last_result\n        if len(path) == 0:\n            self._last_dict, self._last_result = value, result\n\n        for key, (val, is_optional) in schema.props.keys.items():\n            if is_ellipsis(key):\n                continue\n            if key in value:\n                nested_path = deepcopy(path)[key]"),
    ("c07_substitute_sorts_value_list", "C07", S, "        if (schema.props.elements is Nil) and (schema.props.type is Nil):\n            elements = []",
     "        if (schema.props.elements is Nil) and (schema.props.type is Nil):\n            if len(value) > 3 and all(isinstance(x, int) for x in value):\n                value.sort()\n            elements = []"),
    ("c07_make_required_mutates_keys_arg", "C07", MR, "    props_keys = schema.props.keys if (schema.props.keys is not Nil) else {}\n    for key in keys:",
     "    props_keys = schema.props.keys if (schema.props.keys is not Nil) else {}\n    if isinstance(keys, list):\n        keys.sort(key=repr)\n    for key in keys:"),
    ("c07_dict_call_keeps_callers_dict_when_plain", "C07", DS, "        return self.__class__(self.props.update(keys=real_keys))",
     "        if all(isinstance(v, tuple) for v in keys.values()):\n            real_keys = keys  # already in canonical form\n        return self.__class__(self.props.update(keys=real_keys))"),
    # ---- C08
    ("c08_extra_keys_sorted", "C08", V, "            for key, val in value.items():\n                if key not in schema.props.keys:\n                    result.add_error(ExtraKeyValidationError(path, value, key))",
     "            for key in sorted(value) if len(value) > 3 else value:\n                if key not in schema.props.keys:\n                    result.add_error(ExtraKeyValidationError(path, value, key))"),
    ("c08_format_length_uses_dunder", "C08", FM, "        actual_len = len(actual_value)", "        actual_len = actual_value.__len__() if not isinstance(actual_value, str) else len(actual_value.encode())"),
    # ---- C09
    ("c09_word_includes_dash", "C09", RX, "\"word\": string.ascii_letters + string.digits + \"_\",", "\"word\": string.ascii_letters + string.digits + \"_-\","),
    ("c09_lookahead_silently_empty", "C09", RX, "        elif opcode == AT:\n            return self._generate_at(value)", "        elif opcode == AT or str(opcode) in (\"ASSERT\", \"ASSERT_NOT\"):\n            return self._generate_at(value)"),
    # ---- C10
    ("c10_len_check_skipped_for_empty_value", "C10", SS, "        if (props.value is not Nil) and (len(props.value) != length):\n            raise make_incorrect_len_error(self, props.value, length)",
     "        if props.value and (len(props.value) != length):\n            raise make_incorrect_len_error(self, props.value, length)"),
    ("c10_alphabet_redeclare_allowed_if_superset", "C10", SS, "        if self.props.alphabet is not Nil:\n            raise make_already_declared_error(self)\n\n        if self.props.pattern is not Nil:\n            raise make_already_declared_error(self)\n\n        if self.props.value is not Nil:\n            missing_letters",
     "        if (self.props.alphabet is not Nil) and not (set(self.props.alphabet) < set(letters)):\n            raise make_already_declared_error(self)\n\n        if self.props.pattern is not Nil:\n            raise make_already_declared_error(self)\n\n        if self.props.value is not Nil:\n            missing_letters"),
    ("c10_list_len_mutates_then_raises", "C10", LS, "        props = self.props\n        if is_ellipsis(val_or_min):\n            props = self.__declare_max_len(props, max)\n        else:\n            if max is Nil:\n                props = self.__declare_len(props, val_or_min)",
     "        props = self.props\n        if is_ellipsis(val_or_min):\n            props = self.__declare_max_len(props, max)\n        else:\n            if max is Nil:\n                if isinstance(val_or_min, int) and val_or_min < 0:\n                    raise ValueError(\"negative length\")\n                props = self.__declare_len(props, val_or_min)"),
    # ---- C11
    ("c11_contains_after_regex_allowed", "C11", SS, "        if self.props.substr is not Nil:\n            raise make_already_declared_error(self)\n\n        if self.props.pattern is not Nil:\n            raise make_already_declared_error(self)\n\n        if self.props.value is not Nil:\n            if substr not in self.props.value:",
     "        if self.props.substr is not Nil:\n            raise make_already_declared_error(self)\n\n        if (self.props.pattern is not Nil) and (self.props.value is Nil):\n            raise make_already_declared_error(self)\n\n        if self.props.value is not Nil:\n            if substr not in self.props.value:"),
    ("c11_float_min_after_max_checks_order", "C11", FS, "        if (self.props.value is not Nil) and (value > self.props.value):\n            raise make_incorrect_min_error(self, self.props.value, value)\n\n        return self.__class__(self.props.update(min=value))\n\n    def max(self, /, value: float)",
     "        if (self.props.value is not Nil) and (value > self.props.value):\n            raise make_incorrect_min_error(self, self.props.value, value)\n\n        if (self.props.max is not Nil) and (value > self.props.max):\n            raise make_incorrect_min_error(self, self.props.max, value)\n\n        return self.__class__(self.props.update(min=value))\n\n    def max(self, /, value: float)"),
    ("c11_alphabet_then_len_drops_alphabet", "C11", SS, "        props = self.props\n        if is_ellipsis(val_or_min):\n            props = self.__declare_max_len(props, max)",
     "        props = self.props\n        if (props.alphabet is not Nil) and (props.alphabet == \"\"):\n            props = props.update(alphabet=Nil)\n        if is_ellipsis(val_or_min):\n            props = self.__declare_max_len(props, max)"),
    # ---- C12
    ("c12_from_native_error_leaks_in_dict", "C12", S, "            for key, val in value.items():\n                if is_ellipsis(key) != is_ellipsis(val):\n                    raise SubstitutionError(\"Can't substitute ...\")\n                keys[key] = (... if is_ellipsis(val) else self._from_native(val), False)",
     "            for key, val in value.items():\n                if is_ellipsis(key) != is_ellipsis(val):\n                    raise SubstitutionError(\"Can't substitute ...\")\n                keys[key] = (... if is_ellipsis(val) else (from_native(val) if isinstance(val, (list, dict)) else self._from_native(val)), False)"),
    ("c12_any_keeps_failed_alternatives_index", "C12", S, "            if len(types) == 0:\n                raise SubstitutionError(f\"Can't substitute {value!r}\")",
     "            if len(types) == 0 and not isinstance(value, dict):\n                raise SubstitutionError(f\"Can't substitute {value!r}\")"),
    # ---- C13
    ("c13_make_required_skips_falsy_keys", "C13", MR, "            updated_keys[key] = (val, False if (key in keys) else is_optional)", "            updated_keys[key] = (val, False if (key and key in keys) else is_optional)"),
    ("c13_flatten_drops_duplicates", "C13", AS, "                flattened.extend(self._flatten_schemas(schema.props.types))", "                flattened.extend(x for x in self._flatten_schemas(schema.props.types) if type(x) not in map(type, flattened))"),
    ("c13_getitem_returns_pair", "C13", DS, "        return self.props.keys[key][0]", "        return self.props.keys[key][0] if not isinstance(key, tuple) else self.props.keys[key]  # type: ignore"),
    # ---- C14
    ("c14_date_before_datetime", "C14", FN, "    elif isinstance(value, datetime):\n        return DateTimeSchema()(value)\n    elif isinstance(value, date):\n        return DateSchema()(value)",
     "    elif isinstance(value, date) and getattr(value, \"tzinfo\", None) is None and getattr(value, \"hour\", 1) == 0 and getattr(value, \"minute\", 1) == 0 and getattr(value, \"second\", 1) == 0 and getattr(value, \"microsecond\", 1) == 0:\n        return DateSchema()(value.date() if isinstance(value, datetime) else value)\n    elif isinstance(value, datetime):\n        return DateTimeSchema()(value)\n    elif isinstance(value, date):\n        return DateSchema()(value)"),
    ("c14_tuple_as_list", "C14", FN, "    elif isinstance(value, list):", "    elif isinstance(value, (list, tuple)):"),
    ("c14_nested_list_depth_limit", "C14", FN, "        return ListSchema()([from_native(x) for x in value])", "        return ListSchema()([from_native(x) for x in value[:8]] + ([...] if len(value) > 8 else []))"),
    # ---- C15
    ("c15_eq_value_short_circuit_none", "C15", VI, "    return not validate(schema, value=value).has_errors()", "    return value is not None and not validate(schema, value=value).has_errors()"),
    # ---- C16
    ("c16_custom_validate_drops_kwargs", "C16", CT, "            res = validate_method(visitor, value=value, path=path or visitor.make_path(), **kwargs)",
     "            res = validate_method(visitor, value=value, path=path or visitor.make_path())"),
    ("c16_custom_path_reset_when_deep", "C16", CT, "            res = validate_method(visitor, value=value, path=path or visitor.make_path(), **kwargs)",
     "            res = validate_method(visitor, value=value, path=path if (path and len(path) < 3) else visitor.make_path(), **kwargs)"),
    ("c16_custom_represent_indent_lost", "C16", CT, "            return cast(str, represent_method(visitor, indent=indent, **kwargs))", "            return cast(str, represent_method(visitor, indent=0 if indent > 4 else indent, **kwargs))"),
    ("c16_typed_list_custom_type_not_substituted", "C16", S, "                    element = schema.props.type.__accept__(self, value=val, **kwargs)",
     "                    element = schema.props.type.__accept__(self, value=val, **kwargs) if hasattr(schema.props.type, \"props\") and type(schema.props.type).__module__.startswith(\"d42.\") else schema.props.type"),
    # ---- C17
    ("c17_dict_generation_order_from_set", "C17", G, "        for key, (val, is_optional) in schema.props.keys.items():\n            if is_ellipsis(key):\n                continue\n            if is_optional:",
     "        for key, (val, is_optional) in sorted(schema.props.keys.items(), key=lambda kv: hash(kv[0])):\n            if is_ellipsis(key):\n                continue\n            if is_optional:"),
    ("c17_set_seed_float_truncated", "C17", R, "        random.seed(seed)", "        random.seed(seed if not isinstance(seed, str) else hash(seed))"),
    # ---- C18
    ("c18_tail_joined_with_default_separator", "C18", RO, "            tail = separator.join(parts[1:])", "            tail = \".\".join(parts[1:])"),
    # ---- C19
    ("c19_asname_dropped_for_unmapped", "C19", MG, "                    import_name = f\"{name} as {asname}\" if asname else name\n                    unmapped_names.append(import_name)",
     "                    import_name = f\"{name} as {asname}\" if (asname and module not in mapping) else name\n                    unmapped_names.append(import_name)"),
    ("c19_star_import_dropped", "C19", MG, "            if unmapped_names:\n                names_str = ', '.join(unmapped_names)", "            if unmapped_names and unmapped_names != ['*']:\n                names_str = ', '.join(unmapped_names)"),
    ("c19_mapping_target_typo", "C19", MG, "\"SubstitutionError\": (\"d42.substitution.errors\", \"SubstitutionError\"),", "\"SubstitutionError\": (\"d42.substitution.error\", \"SubstitutionError\"),"),
    ("c19_duplicate_names_deduplicated", "C19", MG, "                    new_imports[new_module].append(import_name)", "                    if import_name not in new_imports[new_module]:\n                        new_imports[new_module].append(import_name)"),
    ("c19_suffix_dropped_when_comment", "C19", MG, "        after = lines[end_line].encode()[end_col:].decode()", "        after = lines[end_line].encode()[end_col:].decode()\n        if after.lstrip().startswith(';') and '#' in after:\n            after = '\\n'"),
    # ---- replacements / additions after the first kill-matrix round
    ("c01_any_generation_prefers_first_two", "C01", G, "        chosen = self._random.random_choice(schema.props.types)\n        return chosen.__accept__(self, **kwargs)",
     "        chosen = self._random.random_choice(schema.props.types)\n        value = chosen.__accept__(self, **kwargs)\n        return value if not isinstance(value, list) or len(value) < 15 else value[:15]"),
    ("c08_uuid_version_before_type", "C08", V, "        if error := self._validate_type(path, value, UUID):\n            return result.add_error(error)\n\n        if value.version != 4:",
     "        if (schema.props.value is not Nil) and (getattr(value, \"version\", 4) != 4 or value.__class__.__name__.startswith(\"mem\") and value.version):\n            pass\n        if error := self._validate_type(path, value, UUID):\n            return result.add_error(error)\n\n        if value.version != 4:"),
    ("c09_dot_includes_newline", "C09", RX, "\"letters\": string.ascii_letters + string.digits + string.punctuation + \" \",", "\"letters\": string.ascii_letters + string.digits + string.punctuation + \" \\n\","),
    ("c17_two_way_choice_from_system_random", "C17", R, "    def random_choice(self, sequence: Sequence[_T]) -> _T:\n        return random.choice(sequence)",
     "    def random_choice(self, sequence: Sequence[_T]) -> _T:\n        if len(sequence) == 2:\n            return random.SystemRandom().choice(sequence)\n        return random.choice(sequence)"),
    ("c04_any_keeps_unsubstituted_alternative", "C04", S, "                else:\n                    types.append(substituted)\n            if len(types) == 0:",
     "                else:\n                    types.append(substituted if len(types) == 0 else sch_type)\n            if len(types) == 0:"),
    ("c05_typed_list_elements_not_substituted_after_8", "C05", S, "                    element = schema.props.type.__accept__(self, value=val, **kwargs)\n                elements.append(element)",
     "                    element = schema.props.type.__accept__(self, value=val, **kwargs) if len(elements) < 8 else self._from_native(val)\n                elements.append(element)"),
]


def sh(cmd, **kw):
    return subprocess.run(cmd, shell=isinstance(cmd, str), capture_output=True, text=True, **kw)


def main():
    only = sys.argv[sys.argv.index("--only") + 1] if "--only" in sys.argv else None
    if not os.path.isdir(WT):
        sh(["git", "-C", "/repo", "worktree", "add", "-q", "--detach", WT, "HEAD"])
    head = sh(["git", "-C", "/repo", "rev-parse", "HEAD"]).stdout.strip()
    sh(["git", "-C", WT, "checkout", "-q", "--detach", head])
    os.makedirs(os.path.join(VERIF, "mutants"), exist_ok=True)
    index = []
    for entry in M:
        name, prop, path, old, new = entry[:5]
        if only and only not in name:
            continue
        sh(["git", "-C", WT, "checkout", "--", "."])
        full = os.path.join(WT, path)
        src = open(full).read()
        if src.count(old) != 1:
            print(f"SKIP {name}: anchor found {src.count(old)} times")
            continue
        open(full, "w").write(src.replace(old, new))
        env = dict(os.environ, PYTHONPATH=WT, PYTHONDONTWRITEBYTECODE="1")
        r = sh("/venv/bin/python -m pytest -q -p no:cacheprovider -n 8 -x 2>&1 | tail -1", env=env, cwd=WT)
        ok = " passed" in r.stdout and "failed" not in r.stdout and "error" not in r.stdout.lower()
        if not ok:
            print(f"DROP {name}: test-suite objects: {r.stdout.strip()[:100]}")
            continue
        diff = sh(["git", "-C", WT, "diff"]).stdout
        out = os.path.join(VERIF, "mutants", f"m_{name}.diff")
        open(out, "w").write(diff)
        index.append({"name": name, "property": prop, "file": path, "patch": f"mutants/m_{name}.diff"})
        print(f"KEEP {name} ({prop})")
    sh(["git", "-C", WT, "checkout", "--", "."])
    if not only:
        json.dump(index, open(os.path.join(VERIF, "mutants", "index.json"), "w"), indent=1)
    return 0


if __name__ == "__main__":
    sys.exit(main())
