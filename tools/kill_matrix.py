#!/usr/bin/env python3
"""Run the responsible quick check (then every quick check if it stays silent) against every patch in /verif/mutants
and in /verif/seeded, and write mutants/RESULTS.md.   usage: tools/kill_matrix.py [--only substr] [--all-checks]"""
import glob
import json
import os
import re
import subprocess
import sys

VERIF = os.path.dirname(os.path.dirname(os.path.abspath(__file__)))
ALL = ",".join(f"C{i:02d}" for i in range(1, 20))


def run(patch, props):
    r = subprocess.run([os.path.join(VERIF, "tools", "try_seed.py"), patch, "--props", props], capture_output=True, text=True)
    caught = re.search(r"CAUGHT_BY: (.*)", r.stdout)
    kinds = sorted(set(re.findall(r"kind=(\S+)", r.stdout)))
    inconc = "INCONCLUSIVE" in r.stdout
    return (caught.group(1) if caught else "?"), kinds, inconc


def main():
    only = sys.argv[sys.argv.index("--only") + 1] if "--only" in sys.argv else None
    rows = []
    items = []
    try:
        idx = {e["name"]: e for e in json.load(open(os.path.join(VERIF, "mutants", "index.json")))}
    except Exception:
        idx = {}
    for p in sorted(glob.glob(os.path.join(VERIF, "mutants", "*.diff"))):
        name = os.path.basename(p)[:-5]
        prop = idx.get(name[2:], {}).get("property") if name.startswith("m_") else None
        items.append((name, prop, p))
    for d in sorted(glob.glob(os.path.join(VERIF, "seeded", "*"))):
        meta = json.load(open(os.path.join(d, "meta.json")))
        items.append(("seeded/" + os.path.basename(d), meta.get("breaks_property"), os.path.join(d, "patch.diff")))
    for name, prop, patch in items:
        if only and only not in name:
            continue
        caught, kinds, inconc = ("-", [], False)
        if prop and "--all-checks" not in sys.argv:
            caught, kinds, inconc = run(patch, prop)
        if caught in ("-", "?"):
            caught, kinds, inconc = run(patch, ALL)
        rows.append((name, prop or "?", caught, kinds[:3], inconc))
        print(f"{name:55s} target={prop or '?':4s} caught_by={caught} {'(inconclusive seen)' if inconc else ''} {kinds[:2]}", flush=True)
    if not only:
        with open(os.path.join(VERIF, "mutants", "RESULTS.md"), "w") as f:
            f.write("# Kill matrix (quick tier, VERIF_SEED=0)\n\nEach patch is applied to a scratch worktree of /repo HEAD; the responsible "
                    "check runs with D42_REPO=<worktree>; if it stays silent every check is run. `revert_*` = revert of a `fix:` commit, "
                    "`m_*` = hand-written breaking edit (tools/make_mutants.py, kept only if the 1043 tests still pass), `seeded/*` = "
                    "changes written by independent sub-agents.\n\n| patch | target | caught by | first violation kinds |\n|---|---|---|---|\n")
            for name, prop, caught, kinds, inconc in rows:
                f.write(f"| {name} | {prop} | {caught} | {', '.join(kinds)} |\n")
            n = len(rows)
            k = sum(1 for r in rows if r[2] not in ("-", "?"))
            f.write(f"\n{k} of {n} caught.\n")
    return 0


if __name__ == "__main__":
    sys.exit(main())
