#!/usr/bin/env python3
"""For every kept patch, run the check(s) that caught it at VERIF_SEED=0 again with other seeds and report the patches
whose detection is seed-fragile.   usage: tools/robustness.py [seed ...]   (default seeds 1 2)"""
import glob
import json
import os
import re
import subprocess
import sys

VERIF = os.path.dirname(os.path.dirname(os.path.abspath(__file__)))


def main():
    seeds = sys.argv[1:] or ["1", "2"]
    items = []
    try:
        idx = {e["name"]: e for e in json.load(open(os.path.join(VERIF, "mutants", "index.json")))}
    except Exception:
        idx = {}
    res_md = open(os.path.join(VERIF, "mutants", "RESULTS.md")).read() if os.path.exists(os.path.join(VERIF, "mutants", "RESULTS.md")) else ""
    for p in sorted(glob.glob(os.path.join(VERIF, "mutants", "*.diff"))):
        name = os.path.basename(p)[:-5]
        m = re.search(r"\| %s \| \S+ \| (\S+) \|" % re.escape(name), res_md)
        props = m.group(1) if m and m.group(1) not in ("-", "?") else (idx.get(name[2:], {}).get("property") or "")
        items.append((name, props.split(",")[0] if props else None, p))
    for d in sorted(glob.glob(os.path.join(VERIF, "seeded", "*"))):
        meta = json.load(open(os.path.join(d, "meta.json")))
        caught = meta.get("caught_by_quick_checks") or []
        target = meta.get("breaks_property")
        prop = target if target in caught else (caught[0] if caught else target)
        items.append(("seeded/" + os.path.basename(d), prop, os.path.join(d, "patch.diff")))
    fragile = []
    for name, prop, patch in items:
        if not prop:
            continue
        for seed in seeds:
            r = subprocess.run([os.path.join(VERIF, "tools", "try_seed.py"), patch, "--props", prop, "--seed", seed],
                               capture_output=True, text=True)
            ok = re.search(r"CAUGHT_BY: (\S+)", r.stdout)
            caught = ok and ok.group(1) not in ("-", "?")
            print(f"{name:52s} {prop} seed={seed} {'caught' if caught else 'MISSED'}", flush=True)
            if not caught:
                fragile.append((name, prop, seed))
    print("FRAGILE:", fragile)
    return 0


if __name__ == "__main__":
    sys.exit(main())
