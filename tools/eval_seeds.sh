#!/bin/sh
# tools/eval_seeds.sh <dir-with-SEED_x> ... : confirm demo + tests and run all quick checks for each seed
cd "$(dirname "$0")/.." || exit 2
for D in "$@"; do
  echo "=== $D :: $(python3 -c "import json;m=json.load(open('$D/meta.json'));print(m.get('property'),'|',m.get('summary','')[:150])" 2>/dev/null)"
  tools/try_seed.py "$D/patch.diff" --demo "$D/demo.py" --tests ${PROPS:+--props $PROPS} 2>&1 | grep -v "rc=0"
done
