#!/bin/sh
# Offline setup: nothing to build (pure Python, stdlib + the repository's own dependencies); run the self-test.
HERE="$(cd "$(dirname "$0")" && pwd)"
cd "$HERE" || exit 1
PY="${D42_PY:-/venv/bin/python}"
PYTHONDONTWRITEBYTECODE=1 PYTHONPATH=/repo:"$HERE" "$PY" -m rv.selftest
