#!/bin/sh
# Offline setup: optional third-party contracts library beside the repo's interpreter, then a self-test.
HERE="$(cd "$(dirname "$0")" && pwd)"
cd "$HERE" || exit 1
PY="${D42_PY:-/venv/bin/python}"
if [ ! -d .deps/icontract ]; then
  "$PY" -m pip install --quiet --no-index --find-links /opt/veriftools/wheels --target .deps icontract >/dev/null 2>&1 \
    || echo "setup: icontract not installed (framework falls back to its own wrappers)"
fi
PYTHONDONTWRITEBYTECODE=1 PYTHONPATH=/repo:"$HERE" "$PY" -m rv.selftest
